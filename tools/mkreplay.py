#!/usr/bin/env python3
"""mkreplay.py PROP CONFIG GEN PAYLOAD_HEX OUT [note]  — write a generator-independent replay file
(payload packed exactly as harness run::pack_bytes does)."""
import json, sys

def pack(b):
    w = [len(b)]
    for i in range(0, len(b), 4):
        c = b[i:i + 4] + b"\0" * (4 - len(b[i:i + 4]))
        w.append(int.from_bytes(c, "big"))
    return w

if __name__ == "__main__":
    prop, cfg, gen, payload, out = sys.argv[1:6]
    note = sys.argv[6] if len(sys.argv) > 6 else ""
    b = bytes.fromhex(payload)
    json.dump(dict(property=prop, config=cfg, gen=gen, words=pack(b), payload_hex=payload, note=note), open(out, "w"), indent=1)
