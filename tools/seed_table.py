#!/usr/bin/env python3
"""Print the markdown table of one wave of seeded changes from seeded/*/meta.json.
   seed_table.py <wave>      (wave 1: seeds 1,2; wave 2: seeds 3,4; wave 3: seeds 5,6)"""
import glob, json, os, sys
wave = int(sys.argv[1])
ns = (2 * wave - 1, 2 * wave)
def clip(s, n):
    s = " ".join((s or "").split()).replace("|", "/")
    return s if len(s) <= n else s[: n - 1] + "…"
print("| seed | change | needs | before strengthening | now (quick tier of its property) |")
print("|---|---|---|---|---|")
for d in sorted(glob.glob(os.path.join(os.path.dirname(os.path.abspath(__file__)), "..", "seeded", "C*-*"))):
    sid = os.path.basename(d)
    if int(sid.split("-")[1]) not in ns:
        continue
    m = json.load(open(os.path.join(d, "meta.json")))
    pid = sid.split("-")[0]
    det = m.get("detection", {}).get(pid, {})
    sig = (det.get("first_signatures") or [""])[0]
    sig = sig.split("] ", 1)[-1].split(": ")[0] if sig else ""
    before = m.get("detected_before_strengthening")
    b = "-" if before is None else ("detected" if before else "missed")
    print(f"| {sid} | {clip(m.get('summary'), 230)} | {clip(m.get('needs_to_manifest'), 200)} | {b} | {'`' + clip(sig, 90) + '`' if det.get('detected') else 'MISSED'} |")
