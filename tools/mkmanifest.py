#!/usr/bin/env python3
"""Regenerate /verif/MANIFEST.json from the table below."""
import json, subprocess

HOOK = subprocess.check_output(["git", "-C", "/repo", "log", "--format=%H", "--grep=^verif hook"]).decode().split()

common_base = ("Trusted base: the harness's reference CBOR codec and specification tables (guarded by `ctv selftest` and by the "
               "seeded-change runs recorded in DESIGN.md), proptest, rustc. Search, not proof: absence is established only for the "
               "sub-domains the evidence file lists under exhaustive_subdomains.")

P = {
 "C01": ("exploration", "model-based round trip: requests constructed from the specification's key tables with proptest (all presence subsets enumerated, boundary lattice + random values), decoded by the crate and compared member by member with an independent model incl. the documented lossy maps",
         "Every top-level presence subset and every nested presence combination of every parameter-bearing command is enumerated in all 8 feature configurations; values are sampled. A swapped / renumbered / dropped / altered member is visible because every member carries a distinct generated value."),
 "C02": ("exploration", "model-based differential: responses built through the public API from a reference-CBOR description, serialised by the crate, parsed by an independent strict parser and compared order-insensitively with the description (proptest; presence subsets enumerated)",
         "All presence subsets where 2^k <= 4096, none/singletons/pairs/full otherwise, both attestation shapes, all four COSE key kinds, all 8 configurations; values sampled."),
 "C03": ("exploration", "validity predicate over generated outputs: an independent CTAP2 canonical-CBOR validator applied to every response body (serialised into fresh, reused and pre-filled buffers), every stand-alone serialisable type (all member pairs), the authenticator-data extension tail and integers at every head-width threshold (proptest + enumeration)",
         "Key order is settled for all member pairs of every map type in every configuration (pairs suffice: emission order is declaration order); head widths at all thresholds; values sampled."),
 "C04": ("exploration", "exhaustive enumeration of short inputs + structure-aware mutation fuzzing with in-target oracles (no panic/abort, status set, determinism); libFuzzer+ASan target as second engine in the thorough tier",
         "Absence of panics is established for all inputs of length <= 3 (and 4-byte inputs of parameter-bearing commands in the thorough tier); beyond that it is search. Non-termination is only seen as a watchdog hit (exit 2)."),
 "C05": ("fault_enumeration", "single-fault enumeration: every well-formed seed (minimal, full, proptest-generated) crossed with every single fault of each class, each with the status code the specification assigns; all 256 command bytes",
         "Within a seed every fault position of every class is enumerated (no sampling); seeds are sampled. Expectations are derived per fault class from the specification, not from the implementation."),
 "C06": ("exploration", "metamorphic relation under proptest: decode(request with unknown text-keyed members inserted at every position of a host map) == decode(request without)",
         "Every host map type, every insertion position per case, unknown values from the full definite-length CBOR grammar up to depth 16; sampled."),
 "C07": ("exploration", "model-based differential on a deterministic grid + proptest: byte-for-byte comparison with the WebAuthn layout; error iff > 676 bytes or credential id > 65535",
         "Every credential-id length 0..=700 and 65535/65536/70000 x aaguid/key lengths x extensions, all 16 flag subsets; contents sampled."),
 "C08": ("exploration", "exhaustive header-space enumeration + proptest against the U2F decision table transcribed from the statement; APDUs built by an independent ISO 7816-4 framer; both entry points",
         "Thorough: all 2^24 (class, instruction, P1) headers, all 256 length/encoding/consistency variants for instructions 1-3; quick: every (class, instruction) x P1 classes."),
 "C09": ("exploration", "model-based differential with capacity lattice: responses serialised into iso7816::Data<S> pre-filled so that the remaining space sits on every part boundary +-2 (enumerated) with proptest contents",
         "Every (kind, part boundary, delta) combination; const-generic capacities are a fixed list made effective at run time by the pre-filled prefix."),
 "C10": ("exploration", "stateful mock / call-log oracle: recording authenticator with generated behaviour tables; every request variant x both entry points (proptest payloads and tables)",
         "All 13 request variants and all 64 vendor codes enumerated; behaviour tables and payloads sampled."),
 "C11": ("exploration", "exhaustive enumeration of all 256 command bytes x 9 payload classes against the specification's command table; whole-table injectivity",
         "Complete over the byte domain; payload contents sampled."),
 "C12": ("exploration", "boundary-value enumeration: every (command, bounded member) x every probe point (cap-1, cap, cap+1, far beyond; 0, max-1, max, max+1, 2^32, 2^63; signed counterparts) inside otherwise valid generated messages; accepted values checked with the C01 oracle",
         "All bounds x all probe points enumerated; surrounding message contents sampled."),
 "C13": ("exploration", "enumeration of character-width patterns around the 64-byte cut x alignments + proptest Unicode text + every icon length 0..300 + ill-formed UTF-8 injection; oracle from str::is_char_boundary / from_utf8",
         "Thorough: all 4^8 width patterns x 9 alignments; quick: 4^5 x 9. Built with debug assertions so a failed unwrap_unchecked aborts."),
 "C14": ("exploration", "exhaustive small-alphabet enumeration (5 461 parameter lists, 1 365 format lists) + proptest lists up to 64 entries and positional lists of up to 320 entries (supported / known / unknown entries placed at chosen positions) against the specification's filter rule, through every observation path",
         "Complete for the stated small alphabets; larger lists sampled."),
 "C15": ("exploration", "round-trip properties under proptest: decode(encode(v)) == v for API-built values and encode(decode(b)) == b for canonical reference encodings, for every bidirectional type, presence subsets enumerated",
         "Independent of any key table: fails exactly when the two directions disagree. All 8 configurations."),
 "C16": ("exploration", "differential testing across builds: one seed-determined corpus (feature-independent members) executed by the 8 wire configurations and the all-features+arbitrary build; transcripts compared line for line; plus generated per-member probe crates (tools/lite.py: one module per member, members absent from a configuration drop out, the rest compared across configurations) that still decide when the harness cannot be built for a configuration",
         "Sampled corpus (same in every configuration by construction); a feature that renumbers/renames/reorders a common member changes some transcript line or some member probe."),
 "C17": ("exploration", "capacity-frontier enumeration: Response::serialize::<N> instantiated for ~580 capacities; body tuned so that N - M in -2..+2; every tunable member on every CBOR head-width boundary x every offset; three prior buffer states; oracle = complete message iff it fits else [0x7f]",
         "Every kind x every presence prefix x every instantiated capacity; contents sampled. Capacities are const generics, so the list is fixed at build time."),
 "C18": ("exploration", "exhaustive table enumeration: every spelling and its complete one-edit neighbourhood against every string enumeration; all 256 byte values, head-width thresholds and negatives against every numeric enumeration (the U2F control byte also as P1 of the authenticate APDU); full status/permission/variant tables",
         "Complete over the enumerated neighbourhoods; random strings/numbers in addition."),
 "C19": ("exploration", "generator fuzzing with validity walker: byte patterns (all single-byte repeats x length ladder) and proptest mixes of well- and ill-formed UTF-8 fed to the three Arbitrary impls; every public field validated, value cloned/compared/formatted/dispatched",
         "Sampled; UB that neither from_utf8 on the raw bytes nor a debug assertion exposes needs the Miri run of the thorough tier."),
}

FUZZ_PROPS = ["C01", "C02", "C03", "C05", "C06", "C07", "C08", "C09", "C10", "C12", "C13", "C14", "C15", "C17", "C18"]
checks = []
for pid in sorted(P):
    level, technique, note = P[pid]
    if pid in FUZZ_PROPS:
        technique += "; thorough tier adds coverage-guided fuzzing (libFuzzer + ASan) of the same generators' choice sequences with the oracle inside the target"
    if pid in ("C13", "C19"):
        technique += "; thorough tier replays the enumerated unsafe-boundary cases under Miri"
    checks.append({
        "property_id": pid,
        "quick_cmd": f"./check {pid} --tier quick",
        "thorough_cmd": f"./check {pid} --tier thorough",
        "evidence_file": f"/verif/evidence/{pid}.json",
        "replay_cmd_template": f"./check {pid} --replay {{path}}",
        "engine": "ctv-harness",
        "level_claimed": {"category": level, "text": note, "design_ref": f"DESIGN.md section 3 ({pid})"},
        "level_note": common_base,
        "technique": technique,
    })

m = {
    "version": 1,
    "setup_cmd": "./check setup",
    "hooks": {
        "guard": "--cfg ctap_types_verif",
        "enable": "harness/.cargo/config.toml sets rustflags = [\"--cfg\", \"ctap_types_verif\"]; the harness path-depends on /repo, so every check rebuilds /repo's working tree with the hook on",
        "baseline_off_cmd": "cd /repo && cargo test --workspace --no-fail-fast --offline",
        "source_commits": HOOK,
        "add_only": True,
    },
    "engines": [
        {"name": "ctv-harness", "path": "/verif/harness", "serves_properties": sorted(P),
         "kind_free_text": "Rust binary `ctv` (one build per feature configuration under /verif/target): proptest 1.11 over choice sequences decoded by hand-written generators, explicit enumerations, reference CBOR codec + specification models as oracles; driven by /verif/check (python3), which rebuilds from /repo, shards over 16 cores, reruns crashed workers in journal mode and writes evidence"},
    ],
    "checks": checks,
    "not_applicable": [],
    "notes": "All 19 properties are decided by property-based testing / enumeration with explicit oracles. Five genuine defects were found on the pinned tree and repaired with `fix:` commits in /repo (see /verif/known-findings.txt and DESIGN.md section 4). VERIF_SEED selects the proptest seed; exit 2 = inconclusive (build failure, watchdog, starved generator class), never a violation.",
}
json.dump(m, open("/verif/MANIFEST.json", "w"), indent=1)
print("written", len(checks))
