#!/usr/bin/env python3
"""Evaluate seeded breaking changes.
  seed_eval.py verify  <PID> <n>            confirm the seed in its own worktree /tmp/seed/<PID>
  seed_eval.py detect  <PID> <n> [P1,P2..]  apply to /repo, run the quick checks of the listed properties
                                            (default: the seed's own property), undo, record the outcome
Results accumulate in /verif/seeded/<PID>-<n>/ (patch.diff, demo.rs, meta.json)."""
import json, os, shutil, subprocess, sys, time

ENV = dict(os.environ, CARGO_NET_OFFLINE="true")
FEATS = "get-info-full,large-blobs,third-party-payment"

def sh(cmd, cwd, timeout=1800):
    p = subprocess.run(cmd, cwd=cwd, env=ENV, shell=True, stdout=subprocess.PIPE, stderr=subprocess.STDOUT, text=True, timeout=timeout)
    return p.returncode, p.stdout

def seed_dir(pid, n):
    return f"/verif/seeded/{pid}-{n}"

def load_meta(pid, n):
    d = seed_dir(pid, n)
    p = os.path.join(d, "meta.json")
    return json.load(open(p)) if os.path.exists(p) else {}

def save_meta(pid, n, m):
    os.makedirs(seed_dir(pid, n), exist_ok=True)
    json.dump(m, open(os.path.join(seed_dir(pid, n), "meta.json"), "w"), indent=1)

def verify(pid, n):
    # seeds 1,2 come from the first wave (/tmp/seed), 3,4 from the second, harder wave (/tmp/seed2)
    n = int(n)
    wave = (n + 1) // 2
    wt = f"/tmp/seed/{pid}" if wave == 1 else f"/tmp/seed{wave}/{pid}"
    k = n - 2 * (wave - 1)
    src = f"{wt}/seed"
    patch, demo, meta = f"{src}/patch{k}.diff", f"{src}/demo{k}.rs", f"{src}/meta{k}.json"
    for f in (patch, demo):
        if not os.path.exists(f):
            print("missing", f); return 2
    am = json.load(open(meta)) if os.path.exists(meta) else {}
    feats = (am.get("features") or "").strip()
    demo_name = f"seeddemo_{pid.lower()}_{n}"
    res = {"property": pid, "agent_meta": am, "ran": []}
    def rec(what, rc, out):
        res["ran"].append({"cmd": what, "rc": rc, "tail": out.strip().splitlines()[-3:]})
    sh("git checkout -- . && git clean -fdq tests", wt)
    rc, out = sh(f"git apply --check {patch} && git apply {patch}", wt); rec("git apply", rc, out)
    if rc != 0:
        res["confirmed"] = False; res["why"] = "patch does not apply"; save(pid, n, res, patch, demo); return 1
    def results(out):
        return [l for l in out.splitlines() if l.startswith("test result")]
    rc1, out = sh("cargo test --offline 2>&1", wt); rec("cargo test (changed)", rc1, "\n".join(results(out)))
    ok1 = rc1 == 0 and len(results(out)) >= 3 and all("ok." in l for l in results(out))
    rc2, out = sh(f"cargo test --offline --features {FEATS} 2>&1", wt); rec("cargo test --features all (changed)", rc2, "\n".join(results(out)))
    ok2 = rc2 == 0 and len(results(out)) >= 3 and all("ok." in l for l in results(out))
    rc3, out = sh("cargo build --offline --features arbitrary 2>&1", wt); rec("cargo build --features arbitrary (changed)", rc3, out[-300:])
    ok3 = rc3 == 0
    shutil.copy(demo, f"{wt}/tests/{demo_name}.rs")
    fl = f"--features {feats}" if feats else ""
    if (am.get("profile") or "").strip().lower() == "release":
        fl = (fl + " --release").strip()
    rc4, out = sh(f"cargo test --offline {fl} --test {demo_name} 2>&1", wt); rec(f"demo {fl} (changed)", rc4, "\n".join(out.splitlines()[-6:]))
    demo_fails = rc4 != 0 and ("test result: FAILED" in out or "panicked" in out or "SIGABRT" in out or "signal" in out)
    sh("git checkout -- .", wt)
    rc5, out = sh(f"cargo test --offline {fl} --test {demo_name} 2>&1", wt); rec(f"demo {fl} (unchanged)", rc5, "\n".join(results(out)))
    demo_passes = rc5 == 0 and "test result: ok" in out
    os.remove(f"{wt}/tests/{demo_name}.rs")
    res["confirmed"] = bool(ok1 and ok2 and ok3 and demo_fails and demo_passes)
    res["checks"] = dict(tests_default=ok1, tests_features=ok2, builds_arbitrary=ok3, demo_fails_with_change=demo_fails, demo_passes_without=demo_passes)
    save(pid, n, res, patch, demo)
    print(pid, n, "confirmed" if res["confirmed"] else "NOT CONFIRMED", res["checks"])
    return 0 if res["confirmed"] else 1

def save(pid, n, res, patch, demo):
    d = seed_dir(pid, n)
    os.makedirs(d, exist_ok=True)
    shutil.copy(patch, f"{d}/patch.diff")
    shutil.copy(demo, f"{d}/demo.rs")
    m = load_meta(pid, n)
    am = res.get("agent_meta", {})
    m.update({"breaks_property": pid, "wave": (int(n) + 1) // 2, "summary": am.get("summary"), "needs_to_manifest": am.get("needs"), "demo_features": am.get("features", ""),
              "files": am.get("files"), "confirmed_by_me": res.get("confirmed"), "confirmation": res.get("checks"), "confirmation_runs": res.get("ran")})
    save_meta(pid, n, m)

def detect(pid, n, props):
    # SEED_REPO / SEED_VERIF: run against a scratch worktree of /repo and a scratch copy of /verif
    # pointed at it (used while /repo itself is occupied by a long run)
    REPO = os.environ.get("SEED_REPO", "/repo")
    VERIF = os.environ.get("SEED_VERIF", "/verif")
    d = seed_dir(pid, n)
    patch = f"{d}/patch.diff"
    rc, out = sh("git status --porcelain --untracked-files=no", REPO)
    if out.strip():
        print(f"refusing: {REPO} has uncommitted changes:\n" + out); return 2
    rc, out = sh(f"git apply {patch}", REPO)
    if rc != 0:
        print(f"patch does not apply to {REPO}:", out); return 2
    results = {}
    try:
        for p in props:
            t = time.time()
            rc, out = sh(f"./check {p} --tier quick 2>&1 | tail -40", VERIF, timeout=3600)
            viol = [l for l in out.splitlines() if l.startswith("VIOLATION")]
            # exit code of the pipeline is tail's; derive from output
            detected = bool(viol)
            inconcl = any(l.startswith("INCONCLUSIVE") for l in out.splitlines())
            sigs = [l.strip() for l in out.splitlines() if l.startswith("  [")][:4]
            results[p] = {"detected": detected, "inconclusive": inconcl, "violations": len(viol), "first_signatures": sigs, "wall_s": round(time.time() - t, 1)}
            print(f"  {pid}-{n} vs {p}: {'DETECTED' if detected else ('inconclusive' if inconcl else 'missed')} ({results[p]['wall_s']} s) {sigs[:1]}")
    finally:
        sh("git checkout -- . && git clean -fdq src", REPO)
    m = load_meta(pid, n)
    det = m.get("detection", {})
    det.update(results)
    m["detection"] = det
    m["what_i_ran"] = f"git -C {REPO} apply patch.diff; ./check <P> --tier quick for P in {sorted(det)} (in {VERIF}); git -C {REPO} checkout -- ."
    save_meta(pid, n, m)
    return 0

if __name__ == "__main__":
    mode, pid, n = sys.argv[1], sys.argv[2], sys.argv[3]
    if mode == "verify":
        sys.exit(verify(pid, n))
    props = sys.argv[4].split(",") if len(sys.argv) > 4 else [pid]
    sys.exit(detect(pid, n, props))
