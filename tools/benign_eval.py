#!/usr/bin/env python3
"""False-alarm evaluation with property-preserving changes written by sub-agents.
  benign_eval.py collect            copy /tmp/benign/B*/seed/patchN.diff + metaN.json to /verif/benign/B<i>-<n>/
  benign_eval.py verify <id>        apply in the scratch worktree /tmp/benign/B<i>, run the crate's tests (default + features), build arbitrary
  benign_eval.py run <id> [repo] [verif]   apply to the repo (default /repo), run every quick check, undo; record per-property outcome
"""
import glob, json, os, shutil, subprocess, sys, time
ENV = dict(os.environ, CARGO_NET_OFFLINE="true")
FEATS = "get-info-full,large-blobs,third-party-payment"
def sh(cmd, cwd, timeout=7200):
    p = subprocess.run(cmd, cwd=cwd, env=ENV, shell=True, stdout=subprocess.PIPE, stderr=subprocess.STDOUT, text=True, timeout=timeout)
    return p.returncode, p.stdout
def d(i): return f"/verif/benign/{i}"
def meta(i):
    p = os.path.join(d(i), "meta.json"); return json.load(open(p)) if os.path.exists(p) else {}
def save(i, m): json.dump(m, open(os.path.join(d(i), "meta.json"), "w"), indent=1)
mode = sys.argv[1]
if mode == "collect":
    for b in sorted([d for d in glob.glob("/tmp/benign/B*") if os.path.isdir(d)]):
        for p in sorted(glob.glob(b + "/seed/patch*.diff")):
            n = os.path.basename(p)[5:-5]
            i = f"{os.path.basename(b)}-{n}"
            os.makedirs(d(i), exist_ok=True)
            shutil.copy(p, os.path.join(d(i), "patch.diff"))
            am = json.load(open(b + f"/seed/meta{n}.json")) if os.path.exists(b + f"/seed/meta{n}.json") else {}
            m = meta(i); m.update({"kind": "property-preserving change (false-alarm probe)", "agent_meta": am}); save(i, m)
            print("collected", i)
elif mode == "verify":
    i = sys.argv[2]; wt = "/tmp/benign/" + i.split("-")[0]
    sh("git checkout -- . && git clean -fdq tests src", wt)
    rc, out = sh(f"git apply {d(i)}/patch.diff", wt)
    res = {"applies": rc == 0}
    if rc == 0:
        def ok(out): 
            r = [l for l in out.splitlines() if l.startswith("test result")]
            return len(r) >= 3 and all("ok." in l for l in r)
        rc1, o1 = sh("cargo test --offline 2>&1", wt); res["tests_default"] = rc1 == 0 and ok(o1)
        rc2, o2 = sh(f"cargo test --offline --features {FEATS} 2>&1", wt); res["tests_features"] = rc2 == 0 and ok(o2)
        rc3, o3 = sh("cargo build --offline --features arbitrary 2>&1", wt); res["builds_arbitrary"] = rc3 == 0
    sh("git checkout -- . && git clean -fdq tests src", wt)
    m = meta(i); m["confirmation"] = res; save(i, m)
    print(i, res)
elif mode == "run":
    i = sys.argv[2]; repo = sys.argv[3] if len(sys.argv) > 3 else "/repo"; verif = sys.argv[4] if len(sys.argv) > 4 else "/verif"
    rc, out = sh("git status --porcelain --untracked-files=no", repo)
    assert not out.strip(), "repo not clean: " + out
    rc, out = sh(f"git apply {d(i)}/patch.diff", repo); assert rc == 0, out
    res = {}
    try:
        for k in range(1, 20):
            pid = f"C{k:02d}"; t = time.time()
            rc, out = sh(f"./check {pid} --tier quick 2>&1 | tail -30", verif)
            viol = [l for l in out.splitlines() if l.startswith("VIOLATION")]
            inc = [l for l in out.splitlines() if l.startswith("INCONCLUSIVE") or l.startswith("HANG")]
            sigs = [l.strip()[:260] for l in out.splitlines() if l.startswith("  [")][:2]
            res[pid] = {"outcome": "VIOLATION" if viol else ("inconclusive" if inc else "silent"), "detail": (sigs or inc)[:2], "wall_s": round(time.time() - t, 1)}
            print(f"  {i} vs {pid}: {res[pid]['outcome']} {res[pid]['detail'][:1]}", flush=True)
    finally:
        sh("git checkout -- . && git clean -fdq src", repo)
    m = meta(i); m["quick_checks"] = res; m["what_i_ran"] = f"git -C {repo} apply patch.diff; ./check <P> --tier quick for all 19 P (in {verif}); git -C {repo} checkout -- ."; save(i, m)
