#!/usr/bin/env python3
"""C16 fallback ("lite probes").

The main harness names every member of every request and response type, so a change that makes an
existing member feature-dependent (`#[cfg(feature = ..)]` on a field that used to be
unconditional) stops the harness from compiling in exactly the configurations where the change
bites - and the C16 transcript comparison has nothing to compare. This tool is the second line:
it generates one tiny crate per configuration in which every member is touched by its own
module ("probe"). A probe that does not compile in a configuration (the member does not exist
there) is dropped for that configuration - features may add members - and the remaining probes
are compared across configurations with C16's oracle: the same value, expressed with members that
exist in both configurations, encodes to the same bytes in both; the same message decodes to the
same member values in both.

Encode probes: a response with its required members plus ONE optional member set (value derived
from the seed). Decode probes: one message carrying every common member, decoded, and ONE member
of the result printed. All random choices come from VERIF_SEED through Python's own PRNG *at
generation time* (the generated programs are deterministic); a failing probe is its own minimal
reproduction (type, member, value, configuration pair).

Used by ./check when the harness builds for some configurations of C16 and not for others; can be
run by hand:  tools/lite.py run [--seed N] [--configs 000,010,...]
"""
import concurrent.futures as cf
import json
import os
import random
import re
import shutil
import subprocess
import sys

ROOT = os.path.dirname(os.path.dirname(os.path.abspath(__file__)))
REPO = "/repo"
TARGET = os.path.join(ROOT, "target")
WORK = os.path.join(ROOT, "out", "lite")
FEATS = {"0": [], "1": []}
NAMES = ["get-info-full", "large-blobs", "third-party-payment"]


def feats_of(cfg):
    return [n for b, n in zip(cfg[:3], NAMES) if b == "1"]


# ---------------------------------------------------------------------------------------------
# a tiny CBOR encoder (definite lengths, shortest heads, maps in the given order)

def head(major, n):
    if n < 24:
        return bytes([major << 5 | n])
    for ai, size in ((24, 1), (25, 2), (26, 4), (27, 8)):
        if n < 1 << (8 * size):
            return bytes([major << 5 | ai]) + n.to_bytes(size, "big")
    raise ValueError(n)


def enc(v):
    if v is True:
        return b"\xf5"
    if v is False:
        return b"\xf4"
    if isinstance(v, int):
        return head(0, v) if v >= 0 else head(1, -1 - v)
    if isinstance(v, bytes):
        return head(2, len(v)) + v
    if isinstance(v, str):
        b = v.encode()
        return head(3, len(b)) + b
    if isinstance(v, list):
        return head(4, len(v)) + b"".join(enc(x) for x in v)
    if isinstance(v, dict):
        return head(5, len(v)) + b"".join(enc(k) + enc(x) for k, x in v.items())
    raise TypeError(v)


def rs(b):
    return "&[" + ",".join(str(x) for x in b) + "]"


# ---------------------------------------------------------------------------------------------
# probe table

def probes(seed):
    r = random.Random(seed)

    def u32():
        return r.choice([0, 1, 23, 24, 255, 256, 65535, 65536, r.randrange(1 << 32)])

    def blob(n):
        return bytes(r.randrange(256) for _ in range(n))

    def text(n):
        return "".join(r.choice("abcdefghijklmnopqrstuvwxyz.-") for _ in range(n))

    user = enc({"id": blob(r.randrange(1, 33)), "name": text(r.randrange(1, 20))})
    rp = enc({"id": text(r.randrange(1, 30)), "name": text(r.randrange(1, 20))})
    desc = enc({"id": blob(r.randrange(1, 64)), "type": "public-key"})
    cose = enc({1: 2, 3: -7, -1: 1, -2: blob(32), -3: blob(32)})
    ecdh = enc({1: 2, 3: -25, -1: 1, -2: blob(32), -3: blob(32)})
    key32 = rs(blob(32))
    b = r.choice(["true", "false"])
    P = []   # (name, rust body)

    def encode_probe(ty, base, field, value):
        P.append((f"enc_{ty}_{field}", f"""
    let mut r = {base};
    r.{field} = {value};
    emit("encode {ty}.{field}", hex(&ser(&r)));
"""))

    GA = ("ctap_types::ctap2::get_assertion::ResponseBuilder { credential: de(" + rs(desc) + "), auth_data: bytes(" + rs(blob(37)) +
          "), signature: bytes(" + rs(blob(r.randrange(8, 72))) + ") }.build()")
    MC = ("ctap_types::ctap2::make_credential::ResponseBuilder { fmt: ctap_types::ctap2::AttestationStatementFormat::None, auth_data: bytes(" +
          rs(blob(r.randrange(37, 200))) + ") }.build()")
    CM = "ctap_types::ctap2::credential_management::Response::default()"
    CP = "ctap_types::ctap2::client_pin::Response::default()"
    LB = "ctap_types::ctap2::large_blobs::Response::default()"
    GI = ("ctap_types::ctap2::get_info::ResponseBuilder { versions: de(" + rs(enc(["FIDO_2_1", "U2F_V2"])) + "), aaguid: bytes(" + rs(blob(16)) + ") }.build()")
    OPT = "ctap_types::ctap2::get_info::CtapOptions::default()"
    none_stmt = "Some(ctap_types::ctap2::AttestationStatement::None(ctap_types::ctap2::NoneAttestationStatement {}))"
    for f, v in [("user", f"Some(de({rs(user)}))"), ("number_of_credentials", f"Some({u32()})"), ("user_selected", f"Some({b})"),
                 ("large_blob_key", f"Some(ctap_types::ByteArray::new(*{key32}))"), ("unsigned_extension_outputs", "Some(de(&[0xA0]))"),
                 ("ep_att", f"Some({b})"), ("att_stmt", none_stmt)]:
        encode_probe("get_assertion", GA, f, v)
    for f, v in [("att_stmt", none_stmt), ("ep_att", f"Some({b})"), ("large_blob_key", f"Some(ctap_types::ByteArray::new(*{key32}))"),
                 ("unsigned_extension_outputs", "Some(Default::default())")]:
        encode_probe("make_credential", MC, f, v)
    for f, v in [("existing_resident_credentials_count", f"Some({u32()})"), ("max_possible_remaining_residential_credentials_count", f"Some({u32()})"),
                 ("rp", f"Some(de({rs(rp)}))"), ("rp_id_hash", f"Some(ctap_types::ByteArray::new(*{key32}))"), ("total_rps", f"Some({u32()})"),
                 ("user", f"Some(de({rs(user)}))"), ("credential_id", f"Some(de({rs(desc)}))"), ("public_key", f"Some(de({rs(cose)}))"),
                 ("total_credentials", f"Some({u32()})"), ("cred_protect", "Some(ctap_types::ctap2::credential_management::CredentialProtectionPolicy::Required)"),
                 ("large_blob_key", f"Some(ctap_types::ByteArray::new(*{key32}))"), ("third_party_payment", f"Some({b})")]:
        encode_probe("credential_management", CM, f, v)
    for f, v in [("key_agreement", f"Some(de({rs(ecdh)}))"), ("pin_token", f"Some(bytes({rs(blob(r.choice([16, 32, 48])))}))"),
                 ("retries", f"Some({r.randrange(256)})"), ("power_cycle_state", f"Some({b})"), ("uv_retries", f"Some({r.randrange(256)})")]:
        encode_probe("client_pin", CP, f, v)
    encode_probe("large_blobs", LB, "config", "Some(ctap_types::Bytes::new())")
    usz = lambda: r.choice([0, 1, 24, 255, 256, 7609, 65536])
    for f, v in [("extensions", f"Some(de({rs(enc(['credProtect', 'hmac-secret']))}))"), ("options", f"Some({OPT})"), ("max_msg_size", f"Some({usz()})"),
                 ("pin_protocols", f"Some(de({rs(enc([2, 1]))}))"), ("max_creds_in_list", f"Some({usz()})"), ("max_cred_id_length", f"Some({usz()})"),
                 ("transports", f"Some(de({rs(enc(['nfc', 'usb']))}))"), ("algorithms", f"Some(de({rs(enc([{'alg': -7, 'type': 'public-key'}]))}))"),
                 ("max_serialized_large_blob_array", f"Some({usz()})"), ("force_pin_change", f"Some({b})"), ("min_pin_length", f"Some({usz()})"),
                 ("firmware_version", f"Some({usz()})"), ("max_cred_blob_length", f"Some({usz()})"), ("max_rpids_for_set_min_pin_length", f"Some({usz()})"),
                 ("preferred_platform_uv_attempts", f"Some({usz()})"), ("uv_modality", f"Some({usz()})"), ("certifications", "Some(de(&[0xA0]))"),
                 ("remaining_discoverable_credentials", f"Some({usz()})"), ("vendor_prototype_config_commands", f"Some({usz()})"),
                 ("attestation_formats", f"Some(de({rs(enc(['packed']))}))"), ("uv_count_since_last_pin_entry", f"Some({usz()})"),
                 ("long_touch_for_reset", f"Some({b})")]:
        encode_probe("get_info", GI, f, v)
    for f in ["ep", "uv", "plat", "uv_acfg", "always_uv", "cred_mgmt", "authnr_cfg", "bio_enroll", "client_pin", "large_blobs", "uv_bio_enroll",
              "pin_uv_auth_token", "set_min_pin_length", "make_cred_uv_not_rqd", "credential_mgmt_preview", "user_verification_mgmt_preview",
              "no_mc_ga_permissions_with_client_pin"]:
        encode_probe("ctap_options", OPT, f, f"Some({b})")
    for f in ["rk", "up"]:
        encode_probe("ctap_options", OPT, f, b)

    # decode probes: one message with every common member, one member printed per probe
    def decode_probe(ty, path, msg, name, expr=None):
        # every probe prints ONE leaf member: the Debug output of a nested structure may
        # legitimately differ between configurations (a feature may add a member to it); the
        # value of each member that exists in both configurations may not
        expr = expr or f"&r.{name}"
        ident = re.sub(r"[^a-z0-9_]", "_", name)
        P.append((f"dec_{ty}_{ident}", f"""
    let r: Result<{path}, _> = ctap_types::serde::cbor_deserialize({rs(msg)});
    match r {{
        Ok(r) => emit("decode {ty}.{name}", format!("{{:?}}", {expr})),
        Err(e) => emit("decode {ty}.{name}", format!("error {{:?}}", e)),
    }}
"""))

    def opt(field, sub):
        return f"r.{field}.as_ref().map(|e| &e.{sub})"

    DESCS = ".as_ref().map(|l| l.iter().map(|d| (d.id, d.key_type)).collect::<Vec<_>>())"
    descs = [{"id": blob(r.randrange(1, 40)), "type": "public-key"} for _ in range(r.randrange(1, 4))]
    params = [{"alg": r.choice([-7, -8, -257]), "type": "public-key"} for _ in range(r.randrange(1, 4))]
    mc = enc({1: blob(32), 2: {"id": text(12), "name": text(8)}, 3: {"id": blob(16), "name": text(9), "displayName": text(10)}, 4: params, 5: descs,
              6: {"credProtect": r.randrange(1, 4), "hmac-secret": True, "largeBlobKey": True}, 7: {"rk": True, "up": False, "uv": True},
              8: blob(16), 9: r.choice([1, 2]), 10: r.choice([1, 2]), 11: ["packed", "tpm", "none"]})
    MCR = ("make_credential_request", "ctap_types::ctap2::make_credential::Request", mc)
    for sub in ["cred_protect", "hmac_secret", "large_blob_key", "third_party_payment"]:
        decode_probe(*MCR, f"extensions.{sub}", opt("extensions", sub))
    for sub in ["rk", "up", "uv"]:
        decode_probe(*MCR, f"options.{sub}", opt("options", sub))
    for f in ["rp.id", "rp.name", "user.id", "user.name", "user.display_name", "user.icon", "client_data_hash", "pin_auth", "pin_protocol",
              "enterprise_attestation"]:
        decode_probe(*MCR, f)
    decode_probe(*MCR, "pub_key_cred_params", "r.pub_key_cred_params.0.iter().map(|p| p.alg).collect::<Vec<_>>()")
    decode_probe(*MCR, "exclude_list", "r.exclude_list" + DESCS)
    decode_probe(*MCR, "attestation_formats_preference",
                 "r.attestation_formats_preference.as_ref().map(|p| (p.known_formats().to_vec(), p.includes_unknown_formats()))")
    ga = enc({1: text(14), 2: blob(32), 3: descs, 4: {"hmac-secret": {1: {1: 2, 3: -25, -1: 1, -2: blob(32), -3: blob(32)}, 2: blob(32), 3: blob(16), 4: 1},
                                                      "largeBlobKey": True},
              5: {"up": True, "uv": False}, 6: blob(16), 7: r.choice([1, 2]), 8: r.choice([1, 2]), 9: ["none", "x"]})
    GAR = ("get_assertion_request", "ctap_types::ctap2::get_assertion::Request", ga)
    for sub in ["large_blob_key", "third_party_payment"]:
        decode_probe(*GAR, f"extensions.{sub}", opt("extensions", sub))
    for sub in ["key_agreement", "salt_enc", "salt_auth", "pin_protocol"]:
        decode_probe(*GAR, f"extensions.hmac_secret.{sub}", f"r.extensions.as_ref().and_then(|e| e.hmac_secret.as_ref()).map(|h| &h.{sub})")
    for sub in ["rk", "up", "uv"]:
        decode_probe(*GAR, f"options.{sub}", opt("options", sub))
    for f in ["rp_id", "client_data_hash", "pin_auth", "pin_protocol", "enterprise_attestation"]:
        decode_probe(*GAR, f)
    decode_probe(*GAR, "allow_list", "r.allow_list" + DESCS)
    decode_probe(*GAR, "attestation_formats_preference",
                 "r.attestation_formats_preference.as_ref().map(|p| (p.known_formats().to_vec(), p.includes_unknown_formats()))")
    cp = enc({1: r.choice([1, 2]), 2: r.choice([1, 2, 3, 4, 5, 6, 7, 9]), 3: {1: 2, 3: -25, -1: 1, -2: blob(32), -3: blob(32)}, 4: blob(16), 5: blob(64),
              6: blob(16), 9: r.randrange(1, 64), 10: text(11)})
    for f in ["pin_protocol", "sub_command", "key_agreement", "pin_auth", "new_pin_enc", "pin_hash_enc", "permissions", "rp_id"]:
        decode_probe("client_pin_request", "ctap_types::ctap2::client_pin::Request", cp, f)
    cm = enc({1: r.randrange(1, 8), 2: {1: blob(32), 2: descs[0], 3: {"id": blob(8), "name": text(5)}}, 3: r.choice([1, 2]), 4: blob(16)})
    CMR = ("credential_management_request", "ctap_types::ctap2::credential_management::Request", cm)
    for f in ["sub_command", "pin_protocol", "pin_auth"]:
        decode_probe(*CMR, f)
    decode_probe(*CMR, "sub_command_params.rp_id_hash", opt("sub_command_params", "rp_id_hash"))
    decode_probe(*CMR, "sub_command_params.credential_id", "r.sub_command_params.as_ref().and_then(|p| p.credential_id.as_ref()).map(|d| (d.id, d.key_type))")
    for sub in ["id", "name"]:
        decode_probe(*CMR, f"sub_command_params.user.{sub}", f"r.sub_command_params.as_ref().and_then(|p| p.user.as_ref()).map(|u| &u.{sub})")
    lb = enc({1: 0, 3: r.randrange(1 << 16), 4: r.randrange(1 << 16), 5: blob(16), 6: r.choice([1, 2])})
    for f in ["get", "set", "offset", "length", "pin_uv_auth_param", "pin_uv_auth_protocol"]:
        decode_probe("large_blobs_request", "ctap_types::ctap2::large_blobs::Request", lb, f)
    gi = enc({1: ["FIDO_2_0"], 2: ["hmac-secret"], 3: blob(16), 4: {"rk": True, "up": True, "plat": False, "clientPin": True}, 5: 1200, 6: [1],
              7: 10, 8: 255, 9: ["usb"], 10: [{"alg": -8, "type": "public-key"}], 11: 1024})
    GIR = ("get_info_response", "ctap_types::ctap2::get_info::Response", gi)
    for f in ["versions", "extensions", "aaguid", "max_msg_size", "pin_protocols", "max_creds_in_list", "max_cred_id_length", "transports",
              "max_serialized_large_blob_array"]:
        decode_probe(*GIR, f)
    decode_probe(*GIR, "algorithms", "r.algorithms.as_ref().map(|a| a.0.iter().map(|p| p.alg).collect::<Vec<_>>())")
    for sub in ["rk", "up", "uv", "plat", "cred_mgmt", "client_pin", "large_blobs", "pin_uv_auth_token"]:
        decode_probe(*GIR, f"options.{sub}", opt("options", sub))
    cpr = enc({1: {1: 2, 3: -25, -1: 1, -2: blob(32), -3: blob(32)}, 2: blob(32), 3: 8, 4: False, 5: 3})
    for f in ["key_agreement", "pin_token", "retries", "power_cycle_state", "uv_retries"]:
        decode_probe("client_pin_response", "ctap_types::ctap2::client_pin::Response", cpr, f)
    return P


COMMON = r'''
#![allow(dead_code, unused_variables, clippy::all)]
pub fn de<'a, T: serde::Deserialize<'a>>(b: &'a [u8]) -> T {
    match ctap_types::serde::cbor_deserialize(b) {
        Ok(v) => v,
        Err(e) => {
            println!("HELPER-FAILED {:?}", e);
            std::process::exit(4)
        }
    }
}
pub fn bytes<const N: usize>(b: &[u8]) -> ctap_types::Bytes<N> {
    match ctap_types::Bytes::from_slice(b) {
        Ok(v) => v,
        Err(_) => {
            println!("HELPER-FAILED capacity {} < {}", N, b.len());
            std::process::exit(4)
        }
    }
}
pub fn ser<T: serde::Serialize>(v: &T) -> Vec<u8> {
    let mut buf = vec![0u8; 16384];
    match ctap_types::serde::cbor_serialize(v, &mut buf) {
        Ok(s) => s.to_vec(),
        Err(e) => format!("error {:?}", e).into_bytes(),
    }
}
pub fn hex(b: &[u8]) -> String {
    b.iter().map(|x| format!("{:02x}", x)).collect()
}
pub fn emit(name: &str, what: String) {
    println!("{}\t{}", name, what);
}
'''

CARGO = '''[package]
name = "ctv-lite"
version = "0.1.0"
edition = "2021"
publish = false

[workspace]

[dependencies]
ctap-types = { path = "%s" }
serde = { version = "1", default-features = false }

[features]
gif = ["ctap-types/get-info-full"]
lb = ["ctap-types/large-blobs"]
tpp = ["ctap-types/third-party-payment"]

[profile.dev]
opt-level = 0
debug = false
incremental = false
'''


def generate(cfg, seed, skip, repo=REPO):
    d = os.path.join(WORK, cfg)
    shutil.rmtree(d, ignore_errors=True)
    os.makedirs(os.path.join(d, "src"), exist_ok=True)
    os.makedirs(os.path.join(d, ".cargo"), exist_ok=True)
    open(os.path.join(d, "Cargo.toml"), "w").write(CARGO % repo)
    open(os.path.join(d, ".cargo", "config.toml"), "w").write("[net]\noffline = true\n\n[build]\nrustflags = [\"--cfg\", \"ctap_types_verif\"]\n")
    shutil.copy(os.path.join(repo, "Cargo.lock"), os.path.join(d, "Cargo.lock"))
    ps = [(n, body) for n, body in probes(seed) if n not in skip]
    main = ["mod common;"]
    for n, body in ps:
        open(os.path.join(d, "src", n + ".rs"), "w").write("use crate::common::*;\npub fn run() {" + body + "}\n")
        main.append(f"mod {n};")
    main.append("fn main() {")
    main += [f"    {n}::run();" for n, _ in ps]
    main.append("}")
    open(os.path.join(d, "src", "main.rs"), "w").write("\n".join(main) + "\n")
    open(os.path.join(d, "src", "common.rs"), "w").write(COMMON)
    return d, [n for n, _ in ps]


def build_and_run(cfg, seed, repo=REPO):
    """-> (cfg, status, lines, dropped). status: 'ok' | 'build-failed' | 'run-failed'"""
    skip = set()
    env = dict(os.environ, CARGO_NET_OFFLINE="true", CARGO_TERM_COLOR="never")
    for attempt in range(4):
        d, names = generate(cfg, seed, skip, repo)
        cmd = ["cargo", "build", "--quiet", "--message-format=json", "--target-dir", os.path.join(TARGET, "lite" + cfg)]
        fs = ["gif", "lb", "tpp"]
        on = [f for bit, f in zip(cfg[:3], fs) if bit == "1"]
        if on:
            cmd += ["--features", ",".join(on)]
        p = subprocess.run(cmd, cwd=d, env=env, stdout=subprocess.PIPE, stderr=subprocess.PIPE, text=True)
        if p.returncode == 0:
            exe = os.path.join(TARGET, "lite" + cfg, "debug", "ctv-lite")
            q = subprocess.run([exe], stdout=subprocess.PIPE, stderr=subprocess.PIPE, text=True, timeout=120)
            if q.returncode != 0:
                return cfg, "run-failed", (q.stdout + q.stderr)[-2000:].splitlines(), sorted(skip)
            return cfg, "ok", q.stdout.splitlines(), sorted(skip)
        bad = set()
        other = []
        for line in p.stdout.splitlines():
            try:
                m = json.loads(line)
            except ValueError:
                continue
            if m.get("reason") != "compiler-message":
                continue
            msg = m["message"]
            if msg.get("level") != "error":
                continue
            code = (msg.get("code") or {}).get("code")
            files = {os.path.basename(s["file_name"])[:-3] for s in msg.get("spans", []) if s.get("is_primary")}
            # E0609 / E0560: no such field; E0433 / E0412 / E0425 / E0599: a feature-only type, path or variant
            if code in ("E0609", "E0560", "E0433", "E0412", "E0425", "E0599", "E0432") and files and files <= set(names):
                bad |= files
            elif code is not None or "aborting" not in msg.get("message", ""):
                other.append((code, msg.get("message"), sorted(files)))
        if other or not bad:
            return cfg, "build-failed", [f"{c}: {m} {f}" for c, m, f in other[:10]] or p.stderr[-2000:].splitlines(), sorted(skip)
        skip |= bad
    return cfg, "build-failed", ["too many attempts"], sorted(skip)


def compare(results):
    """results: {cfg: lines}. -> list of differences (name, cfg_a, value_a, cfg_b, value_b)"""
    table = {}
    for cfg, lines in results.items():
        for l in lines:
            if "\t" in l:
                n, v = l.split("\t", 1)
                table.setdefault(n, {})[cfg] = v
    diffs = []
    for n, per in sorted(table.items()):
        cfgs = sorted(per)
        base = cfgs[0]
        for c in cfgs[1:]:
            if per[c] != per[base]:
                diffs.append((n, base, per[base], c, per[c]))
                break
    return diffs, table


def run(seed, cfgs, repo=REPO):
    with cf.ThreadPoolExecutor(max_workers=8) as ex:
        res = list(ex.map(lambda c: build_and_run(c, seed, repo), cfgs))
    ok = {c: lines for c, st, lines, _ in res if st == "ok"}
    failed = {c: (st, lines) for c, st, lines, _ in res if st != "ok"}
    dropped = {c: d for c, st, _, d in res}
    diffs, table = compare(ok)
    return dict(ok=sorted(ok), failed=failed, dropped=dropped, diffs=diffs, probes=len(table),
                compared=sum(1 for per in table.values() if len(per) > 1), table=table)


def cleanup():
    shutil.rmtree(WORK, ignore_errors=True)
    for c in os.listdir(TARGET) if os.path.isdir(TARGET) else []:
        if c.startswith("lite"):
            shutil.rmtree(os.path.join(TARGET, c), ignore_errors=True)


if __name__ == "__main__":
    import argparse
    ap = argparse.ArgumentParser()
    ap.add_argument("cmd", choices=["run", "clean"])
    ap.add_argument("--seed", type=int, default=int(os.environ.get("VERIF_SEED", "0") or 0))
    ap.add_argument("--configs", default="000,001,010,011,100,101,110,111")
    ap.add_argument("--repo", default=REPO)
    a = ap.parse_args()
    if a.cmd == "clean":
        cleanup()
        sys.exit(0)
    out = run(a.seed, a.configs.split(","), a.repo)
    print(f"configurations ok: {out['ok']}  failed: {list(out['failed'])}")
    for c, (st, lines) in out["failed"].items():
        print(f"  {c}: {st}: {lines[:5]}")
    for c, d in out["dropped"].items():
        print(f"  {c}: {len(d)} probes not compilable there: {d}")
    print(f"{out['probes']} probes, {out['compared']} comparable across >= 2 configurations, {len(out['diffs'])} differ")
    for n, ca, va, cb, vb in out["diffs"]:
        print(f"DIFF {n}: [{ca}] {va[:200]}  !=  [{cb}] {vb[:200]}")
    sys.exit(1 if out["diffs"] else (2 if out["failed"] else 0))
