//! Coverage-guided search over the harness's own generators: the fuzz input is read as a
//! choice sequence (first byte selects the generator, then little-endian u32 words) and fed
//! to the same generator + oracle code that proptest drives. A failed oracle panics.
#![no_main]
use libfuzzer_sys::fuzz_target;

fuzz_target!(|data: &[u8]| {
    if data.is_empty() {
        return;
    }
    let gens: Vec<ctv::run::Gen> = [
        ctv::props::c01::gens(),
        ctv::props::c04::gens(),
        ctv::props::c05::gens(),
        ctv::props::c06::gens(),
        ctv::props::c12::gens(),
        ctv::props::c13::gens(),
        ctv::props::c14::gens(),
        ctv::props::c02::gens(),
        ctv::props::c15::gens(),
        ctv::props::c07::gens(),
    ]
    .concat()
    .into_iter()
    .filter(|g| !g.name.ends_with("concrete") && g.name != "c04_short" && !g.name.starts_with("c13_name") && !g.name.starts_with("c13_icon") && !g.name.starts_with("c14_params") || g.name == "c14_params_random")
    .collect();
    let g = gens[data[0] as usize % gens.len()];
    let words: Vec<u32> = data[1..].chunks(4).map(|c| {
        let mut b = [0u8; 4];
        b[..c.len()].copy_from_slice(c);
        u32::from_le_bytes(b)
    }).collect();
    let mut src = ctv::util::Src::new(&words);
    let mut obs = ctv::run::Obs::new(false);
    if let Err(f) = (g.f)(&mut src, &mut obs) {
        if !f.sig.contains("harness") {
            panic!("VIOLATION {} [{}]: {}", f.sig, g.name, f.msg);
        }
    }
});
