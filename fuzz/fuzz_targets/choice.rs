//! Coverage-guided search over the harness's own generators: the fuzz input is read as a
//! choice sequence (first byte selects the generator, then little-endian u32 words) and fed
//! to the same generator + oracle code that proptest drives. A failed oracle panics.
#![no_main]
use libfuzzer_sys::fuzz_target;

fuzz_target!(|data: &[u8]| {
    if data.is_empty() {
        return;
    }
    let gens = ctv::props::fuzz_gens();
    let g = gens[data[0] as usize % gens.len()];
    let words: Vec<u32> = data[1..].chunks(4).map(|c| {
        let mut b = [0u8; 4];
        b[..c.len()].copy_from_slice(c);
        u32::from_le_bytes(b)
    }).collect();
    let mut src = ctv::util::Src::new(&words);
    let mut obs = ctv::run::Obs::new(false);
    if let Err(f) = (g.f)(&mut src, &mut obs) {
        if !f.sig.contains("harness") {
            panic!("VIOLATION {} [{}]: {}", f.sig, g.name, f.msg);
        }
    }
});
