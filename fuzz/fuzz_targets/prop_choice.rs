//! Coverage-guided search over the generators of ONE property (named by CTV_FUZZ_PROP): the fuzz
//! input is a choice sequence (first byte selects the generator, then little-endian u32 words)
//! fed to the same generator + oracle code that proptest drives. A failed oracle panics.
#![no_main]
use libfuzzer_sys::fuzz_target;
use std::sync::OnceLock;

static GENS: OnceLock<Vec<ctv::run::Gen>> = OnceLock::new();

fuzz_target!(|data: &[u8]| {
    let gens = GENS.get_or_init(|| {
        let id = std::env::var("CTV_FUZZ_PROP").unwrap_or_default();
        let g = ctv::props::fuzz_gens_for(&id);
        if g.is_empty() {
            eprintln!("prop_choice: CTV_FUZZ_PROP={:?} names no fuzzable generator", id);
            std::process::exit(3);
        }
        g
    });
    if data.is_empty() {
        return;
    }
    let g = gens[data[0] as usize % gens.len()];
    let words: Vec<u32> = data[1..].chunks(4).map(|c| {
        let mut b = [0u8; 4];
        b[..c.len()].copy_from_slice(c);
        u32::from_le_bytes(b)
    }).collect();
    let mut src = ctv::util::Src::new(&words);
    let mut obs = ctv::run::Obs::new(false);
    if let Err(f) = (g.f)(&mut src, &mut obs) {
        if !f.sig.contains("harness") {
            panic!("VIOLATION {} [{}]: {}", f.sig, g.name, f.msg);
        }
    }
});
