//! C04 second engine: coverage-guided byte-level fuzzing of Request::deserialize with the
//! semantic oracle inside the target (status set, determinism); panics/ASan reports are crashes.
#![no_main]
use libfuzzer_sys::fuzz_target;

fuzz_target!(|data: &[u8]| {
    if data.len() > 7609 {
        return;
    }
    let mut obs = ctv::run::Obs::new(false);
    if let Err(f) = ctv::props::c04::check_input(data, &mut obs) {
        panic!("VIOLATION {}: {}", f.sig, f.msg);
    }
    // the stand-alone public types named by the property
    use ctap_types::serde::cbor_deserialize;
    use ctap_types::webauthn::*;
    let _ = cbor_deserialize::<PublicKeyCredentialRpEntity>(data);
    let _ = cbor_deserialize::<PublicKeyCredentialUserEntity>(data);
    let _ = cbor_deserialize::<PublicKeyCredentialDescriptorRef>(data);
    let _ = cbor_deserialize::<FilteredPublicKeyCredentialParameters>(data);
    let _ = cbor_deserialize::<ctap_types::ctap2::get_info::Response>(data);
    let _ = cbor_deserialize::<ctap_types::ctap2::AttestationFormatsPreference>(data);
    let _ = cbor_deserialize::<ctap_types::ctap2::get_assertion::ExtensionsInput>(data);
});
