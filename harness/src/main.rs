use ctv::{props, refcbor, run};

use run::{Ctx, Tier};
use serde_json::json;
use std::time::Instant;

fn config_name() -> String {
    let mut v: Vec<&str> = vec![];
    if cfg!(feature = "gif") {
        v.push("gif");
    }
    if cfg!(feature = "lb") {
        v.push("lb");
    }
    if cfg!(feature = "tpp") {
        v.push("tpp");
    }
    if cfg!(feature = "arb") {
        v.push("arb");
    }
    if v.is_empty() {
        "default".into()
    } else {
        v.join("+")
    }
}

fn usage() -> ! {
    eprintln!("usage: ctv selftest | config | <PROP> [--tier quick|thorough] [--seed N] [--shard i/n] [--out FILE] [--journal FILE] [--replay FILE]");
    std::process::exit(2)
}

fn real_main() -> i32 {
    let args: Vec<String> = std::env::args().collect();
    if args.len() < 2 {
        usage();
    }
    run::install_panic_hook();
    match args[1].as_str() {
        "config" => {
            println!("{}", config_name());
            return 0;
        }
        "selftest" => {
            return match refcbor::selftest() {
                Ok(n) => {
                    println!("selftest ok: {} reference-codec checks", n);
                    0
                }
                Err(e) => {
                    println!("selftest FAILED: {}", e);
                    2
                }
            };
        }
        _ => {}
    }
    let prop_id = args[1].to_uppercase();
    let mut tier = Tier::Quick;
    let mut seed = 0u64;
    let mut shard = (0u64, 1u64);
    let mut out: Option<String> = None;
    let mut journal: Option<String> = None;
    let mut replay: Option<String> = None;
    let mut i = 2;
    while i < args.len() {
        let a = args[i].as_str();
        let v = args.get(i + 1).cloned();
        match a {
            "--tier" => {
                tier = if v.as_deref() == Some("thorough") { Tier::Thorough } else { Tier::Quick };
                i += 2;
            }
            "--seed" => {
                seed = v.and_then(|s| s.parse().ok()).unwrap_or(0);
                i += 2;
            }
            "--shard" => {
                let s = v.unwrap_or_default();
                let mut it = s.split('/');
                let a: u64 = it.next().and_then(|x| x.parse().ok()).unwrap_or(0);
                let b: u64 = it.next().and_then(|x| x.parse().ok()).unwrap_or(1);
                shard = (a, b.max(1));
                i += 2;
            }
            "--out" => {
                out = v;
                i += 2;
            }
            "--journal" => {
                journal = v;
                i += 2;
            }
            "--replay" => {
                replay = v;
                i += 2;
            }
            _ => usage(),
        }
    }
    let props = props::all();
    let prop = match props.iter().find(|p| p.id == prop_id) {
        Some(p) => p,
        None => {
            eprintln!("unknown property {}", prop_id);
            return 2;
        }
    };
    let start = Instant::now();
    let mut ctx = Ctx::new(&prop_id, tier, seed, &config_name(), shard);
    ctx.journal = journal;
    ctx.out_path = out.clone();

    if let Some(path) = replay {
        let text = match std::fs::read_to_string(&path) {
            Ok(t) => t,
            Err(e) => {
                eprintln!("cannot read {}: {}", path, e);
                return 2;
            }
        };
        let j: serde_json::Value = match serde_json::from_str(&text) {
            Ok(j) => j,
            Err(e) => {
                eprintln!("bad replay file: {}", e);
                return 2;
            }
        };
        let gname = j["gen"].as_str().unwrap_or("");
        let words: Vec<u32> = j["words"]
            .as_array()
            .map(|a| a.iter().filter_map(|x| x.as_u64()).map(|x| x as u32).collect())
            .unwrap_or_default();
        let gens = (prop.gens)();
        let g = match gens.iter().find(|g| g.name == gname) {
            Some(g) => *g,
            None => {
                eprintln!("replay names unknown generator {:?}", gname);
                return 2;
            }
        };
        let fail = ctx.exec(&g, &words);
        let res = json!({
            "property": prop_id, "config": config_name(), "replay": path,
            "outcome": if fail.is_some() { "violation" } else { "pass" },
            "sig": fail.as_ref().map(|f| f.sig.clone()),
            "msg": fail.as_ref().map(|f| f.msg.clone()),
            "case": fail.as_ref().map(|f| f.case.clone()),
        });
        println!("{}", res);
        if let Some(o) = out {
            let _ = std::fs::write(o, res.to_string());
        }
        return if fail.is_some() { 1 } else { 0 };
    }

    ctx.extra.insert("rule".into(), json!(prop.rule));
    ctx.extra.insert("assumptions".into(), json!(prop.assumptions));
    (prop.run)(&mut ctx);
    let wall = start.elapsed().as_secs_f64();
    let res = ctx.result_json(wall);
    match &out {
        Some(o) => {
            if let Err(e) = std::fs::write(o, res.to_string()) {
                eprintln!("cannot write {}: {}", o, e);
                return 2;
            }
            let _ = std::fs::write(format!("{}.digests", o), ctx.digests_bytes());
        }
        None => println!("{}", serde_json::to_string_pretty(&res).unwrap()),
    }
    if !ctx.violations.is_empty() {
        1
    } else {
        0
    }
}

fn main() {
    // run on a thread with an explicit 8 MiB stack (the Linux main-thread default), so that
    // stack use is judged against a fixed reference whatever the caller's ulimit is
    let h = std::thread::Builder::new()
        .stack_size(8 * 1024 * 1024)
        .spawn(real_main)
        .expect("spawn");
    let code = h.join().unwrap_or(3);
    std::process::exit(code);
}
