//! Stand-alone public types: for each one a model generator (reference `Value`, lossless
//! sub-domain), construction through the public API, and the two round trips.
//! Used by C03 (canonical form of every serialisable type, all member pairs), C15 (round
//! trips) and C16 (transcripts).

use crate::refcbor::Value;
use crate::reqmodel::{self as rq, Info};
use crate::respmodel::{self as rs, RInfo};
use crate::util::{lattice_len, lattice_uint, text_of_len, Src};
use ctap_types::ctap2;
use ctap_types::serde::{cbor_deserialize, cbor_serialize};
use ctap_types::webauthn::*;

#[derive(Clone, Copy, PartialEq, Eq, Debug)]
pub enum T {
    CpRequest,
    CmRequest,
    CmSubParams,
    LbRequest,
    GetInfo,
    CpResponse,
    LbResponse,
    HmacInput,
    AuthOptions,
    McExt,
    GaExtIn,
    GaExtOut,
    Rp,
    User,
    Descriptor,
    DescriptorRef,
    Params,
    FilteredParams,
    CtapOptions,
    Certifications,
    GaUnsigned,
    Version,
    Extension,
    Transport,
    AttFormat,
    PinSub,
    CmSub,
    CredProtect,
    CosePublic,
    CoseEcdh,
    CoseP256,
    CoseEd25519,
    /// serialise-only types (C03)
    PackedAtt,
    McResponse,
    GaResponse,
    CmResponse,
}

pub const ALL: [T; 36] = [
    T::CpRequest,
    T::CmRequest,
    T::CmSubParams,
    T::LbRequest,
    T::GetInfo,
    T::CpResponse,
    T::LbResponse,
    T::HmacInput,
    T::AuthOptions,
    T::McExt,
    T::GaExtIn,
    T::GaExtOut,
    T::Rp,
    T::User,
    T::Descriptor,
    T::DescriptorRef,
    T::Params,
    T::FilteredParams,
    T::CtapOptions,
    T::Certifications,
    T::GaUnsigned,
    T::Version,
    T::Extension,
    T::Transport,
    T::AttFormat,
    T::PinSub,
    T::CmSub,
    T::CredProtect,
    T::CosePublic,
    T::CoseEcdh,
    T::CoseP256,
    T::CoseEd25519,
    T::PackedAtt,
    T::McResponse,
    T::GaResponse,
    T::CmResponse,
];

impl T {
    pub fn name(self) -> &'static str {
        match self {
            T::CpRequest => "client_pin::Request",
            T::CmRequest => "credential_management::Request",
            T::CmSubParams => "credential_management::SubcommandParameters",
            T::LbRequest => "large_blobs::Request",
            T::GetInfo => "get_info::Response",
            T::CpResponse => "client_pin::Response",
            T::LbResponse => "large_blobs::Response",
            T::HmacInput => "get_assertion::HmacSecretInput",
            T::AuthOptions => "AuthenticatorOptions",
            T::McExt => "make_credential::Extensions",
            T::GaExtIn => "get_assertion::ExtensionsInput",
            T::GaExtOut => "get_assertion::ExtensionsOutput",
            T::Rp => "PublicKeyCredentialRpEntity",
            T::User => "PublicKeyCredentialUserEntity",
            T::Descriptor => "PublicKeyCredentialDescriptor",
            T::DescriptorRef => "PublicKeyCredentialDescriptorRef",
            T::Params => "PublicKeyCredentialParameters",
            T::FilteredParams => "FilteredPublicKeyCredentialParameters",
            T::CtapOptions => "get_info::CtapOptions",
            T::Certifications => "get_info::Certifications",
            T::GaUnsigned => "get_assertion::UnsignedExtensionOutputs",
            T::Version => "get_info::Version",
            T::Extension => "get_info::Extension",
            T::Transport => "get_info::Transport",
            T::AttFormat => "AttestationStatementFormat",
            T::PinSub => "client_pin::PinV1Subcommand",
            T::CmSub => "credential_management::Subcommand",
            T::CredProtect => "CredentialProtectionPolicy",
            T::CosePublic => "cosey::PublicKey",
            T::CoseEcdh => "cosey::EcdhEsHkdf256PublicKey",
            T::CoseP256 => "cosey::P256PublicKey",
            T::CoseEd25519 => "cosey::Ed25519PublicKey",
            T::PackedAtt => "PackedAttestationStatement",
            T::McResponse => "make_credential::Response",
            T::GaResponse => "get_assertion::Response",
            T::CmResponse => "credential_management::Response",
        }
    }
    pub fn available(self) -> bool {
        match self {
            T::Certifications => rs::GIF,
            _ => true,
        }
    }
    /// can be decoded (has Deserialize)
    pub fn decodable(self) -> bool {
        !matches!(self, T::PackedAtt | T::McResponse | T::GaResponse | T::CmResponse)
    }
    /// can be constructed through the public API (not only by decoding)
    pub fn constructible(self) -> bool {
        !matches!(self, T::CpRequest | T::CmRequest | T::CmSubParams | T::LbRequest)
    }
    /// belongs to C15's list of bidirectional types
    pub fn bidirectional(self) -> bool {
        self.decodable()
    }
}

#[derive(Default, Clone, Debug)]
pub struct TInfo {
    pub present: u32,
    pub absent: u32,
    pub entries: u32,
    pub boundary: u32,
}

impl TInfo {
    fn opt(&mut self, p: bool) -> bool {
        if p {
            self.present += 1
        } else {
            self.absent += 1
        }
        p
    }
    fn from_req(&mut self, i: &Info) {
        self.present += i.present;
        self.absent += i.absent;
        self.boundary += i.boundary;
    }
    fn from_resp(&mut self, i: &RInfo) {
        self.present += i.present;
        self.absent += i.absent;
        self.entries += i.nested_maps;
    }
    pub fn nontrivial(&self) -> bool {
        (self.present > 0 && self.absent > 0) || self.boundary > 0 || self.entries > 0 || self.present >= 2
    }
}

fn ks(k: &str, v: Value) -> (Value, Value) {
    (Value::text(k), v)
}
fn kv(k: i64, v: Value) -> (Value, Value) {
    (Value::int(k), v)
}

/// number of leading presence words of `gen` for subset enumeration
pub fn presence_bits(t: T) -> usize {
    match t {
        T::CpRequest => rq::CP_TOP,
        T::CmRequest => rq::CM_TOP + rq::CM_NESTED,
        T::CmSubParams => 6,
        T::LbRequest => rq::LB_TOP,
        T::GetInfo => rs::gi_top_count(),
        T::CpResponse => rs::CP_OPT,
        T::LbResponse => 1,
        T::HmacInput => 2,
        T::AuthOptions => 3,
        T::McExt => {
            if rs::tpp() {
                4
            } else {
                3
            }
        }
        T::GaExtIn => {
            if rs::tpp() {
                3
            } else {
                2
            }
        }
        T::GaExtOut => {
            if rs::tpp() {
                2
            } else {
                1
            }
        }
        T::Rp => 1,
        T::User => 3,
        T::CtapOptions => rs::gi_opt_count(),
        T::Certifications => 6,
        T::PackedAtt => 1,
        T::McResponse => rs::MC_OPT,
        T::GaResponse => rs::GA_OPT,
        T::CmResponse => rs::cm_opt(),
        _ => 0,
    }
}

pub fn gen(t: T, src: &mut Src, ti: &mut TInfo) -> Value {
    let mut qi = Info { lossless: true, ..Info::default() };
    let mut ri = RInfo::default();
    let v = match t {
        T::CpRequest => rq::gen_cp(src, &mut qi),
        T::CmRequest => rq::gen_cm(src, &mut qi),
        T::CmSubParams => {
            let sp = [src.bool(), src.bool(), src.bool()];
            let pu = [src.bool(), src.bool(), src.bool()];
            let mut p = vec![];
            if ti.opt(sp[0]) {
                p.push(kv(1, Value::Bytes(src.bytes(32))));
            }
            if ti.opt(sp[1]) {
                p.push(kv(2, rq::gen_descriptor(src, &mut qi)));
            }
            if ti.opt(sp[2]) {
                p.push(kv(3, rq::gen_user(src, &mut qi, pu[0], pu[1], pu[2])));
            }
            Value::Map(p)
        }
        T::LbRequest => rq::gen_lb(src, &mut qi),
        T::GetInfo => rs::gen_getinfo(src, &mut ri),
        T::CpResponse => rs::gen_cp_resp(src, &mut ri),
        T::LbResponse => rs::gen_lb_resp(src, &mut ri),
        T::HmacInput => {
            // alg present in the COSE key: the encoder always emits it (byte identity)
            let _ = src.bool();
            let p = src.bool();
            rq::gen_hmac_input(src, &mut qi, true, p)
        }
        T::AuthOptions => {
            let p = [src.bool(), src.bool(), src.bool()];
            rq::gen_options(src, &mut qi, p)
        }
        T::McExt => {
            let n = presence_bits(t);
            let mut p = [false; 4];
            for b in p.iter_mut().take(n) {
                *b = src.bool();
            }
            rq::gen_mc_ext(src, &mut qi, p)
        }
        T::GaExtIn => {
            let n = presence_bits(t);
            let mut p = [false; 3];
            for b in p.iter_mut().take(n) {
                *b = src.bool();
            }
            let pp = src.bool();
            rq::gen_ga_ext(src, &mut qi, p, true, pp)
        }
        T::GaExtOut => {
            let p0 = src.bool();
            let p1 = if rs::tpp() { src.bool() } else { false };
            let mut m = vec![];
            if ti.opt(p0) {
                let n = *src.pick(&[32usize, 0, 1, 64, 79, 80]);
                m.push(ks("hmac-secret", Value::Bytes(src.bytes(n))));
            }
            if rs::tpp() && ti.opt(p1) {
                m.push(ks("thirdPartyPayment", Value::Bool(src.bool())));
            }
            Value::Map(m)
        }
        T::Rp => {
            let p = src.bool();
            let mut v = rq::gen_rp(src, &mut qi, p, 0);
            // the request generator may repeat a long id as the name; a value constructed
            // through the API can hold at most 64 bytes there
            if let Value::Map(m) = &mut v {
                for (k, x) in m.iter_mut() {
                    if k.as_str() == Some("name") {
                        if let Some(t) = x.as_str() {
                            if t.len() > 64 {
                                *x = Value::text(rq::spec_truncate(t, 64));
                            }
                        }
                    }
                }
            }
            v
        }
        T::User => {
            let p = [src.bool(), src.bool(), src.bool()];
            rq::gen_user(src, &mut qi, p[0], p[1], p[2])
        }
        T::Descriptor => {
            let n = lattice_len(src, 255);
            let id = Value::Bytes(src.bytes(n));
            let tn = lattice_len(src, 32);
            let ty = if src.bool() { Value::text("public-key") } else { Value::Text(text_of_len(src, tn).into_bytes()) };
            ti.boundary += (n == 255 || tn == 32) as u32;
            Value::Map(vec![ks("id", id), ks("type", ty)])
        }
        T::DescriptorRef => rq::gen_descriptor(src, &mut qi),
        T::Params => rq::gen_param(src, &mut qi),
        T::FilteredParams => rs::gen_algorithms(src),
        T::CtapOptions => {
            let p: Vec<bool> = (0..rs::gi_opt_count()).map(|_| src.bool()).collect();
            rs::gen_options_map(src, &mut ri, &p)
        }
        T::Certifications => {
            let p: Vec<bool> = (0..6).map(|_| src.bool()).collect();
            rs::gen_certs_map(src, &mut ri, &p)
        }
        T::GaUnsigned => Value::Map(vec![]),
        T::Version => Value::text(*src.pick(&rs::VERSIONS)),
        T::Extension => Value::text(*src.pick(&rs::EXTENSIONS)),
        T::Transport => Value::text(*src.pick(&rs::TRANSPORTS)),
        T::AttFormat => Value::text(*src.pick(&rs::ATT_FORMATS)),
        T::PinSub => Value::Uint(*src.pick(&rq::PIN_SUBCOMMANDS)),
        T::CmSub => Value::Uint(src.range(1, 7) as u64),
        T::CredProtect => Value::Uint(src.range(1, 3) as u64),
        T::CosePublic => {
            let k = src.below(4);
            rs::gen_cose_key(src, &mut ri, k)
        }
        T::CoseEcdh => rs::gen_cose_key(src, &mut ri, 1),
        T::CoseP256 => rs::gen_cose_key(src, &mut ri, 0),
        T::CoseEd25519 => rs::gen_cose_key(src, &mut ri, 2),
        T::PackedAtt => {
            let x = src.bool();
            rs::gen_att_stmt(src, &mut ri, true, x)
        }
        T::McResponse => rs::gen_mc_resp(src, &mut ri),
        T::GaResponse => rs::gen_ga_resp(src, &mut ri),
        T::CmResponse => rs::gen_cm_resp(src, &mut ri),
    };
    ti.from_req(&qi);
    ti.from_resp(&ri);
    let _ = lattice_uint;
    v
}

type SR = Result<Vec<u8>, String>;

fn ser<S: serde::Serialize>(v: &S) -> SR {
    let mut buf = vec![0u8; 8192];
    let n = cbor_serialize(v, &mut buf).map_err(|e| format!("cbor_serialize failed: {:?}", e))?.len();
    buf.truncate(n);
    Ok(buf)
}

pub fn build_auth_options(v: &Value) -> Result<ctap2::AuthenticatorOptions, String> {
    let mut o: ctap2::AuthenticatorOptions =
        cbor_deserialize(&[0xA0]).map_err(|e| format!("cannot obtain empty AuthenticatorOptions: {:?}", e))?;
    o.rk = v.gets("rk").and_then(|x| x.as_bool());
    o.up = v.gets("up").and_then(|x| x.as_bool());
    o.uv = v.gets("uv").and_then(|x| x.as_bool());
    Ok(o)
}

pub fn build_mc_ext(v: &Value) -> Result<ctap2::make_credential::Extensions, String> {
    let mut e = ctap2::make_credential::Extensions::default();
    if let Some(x) = v.gets("credProtect") {
        e.cred_protect = Some(x.as_int().and_then(|i| u8::try_from(i).ok()).ok_or("model: credProtect not u8")?);
    }
    e.hmac_secret = v.gets("hmac-secret").and_then(|x| x.as_bool());
    e.large_blob_key = v.gets("largeBlobKey").and_then(|x| x.as_bool());
    #[cfg(feature = "tpp")]
    {
        e.third_party_payment = v.gets("thirdPartyPayment").and_then(|x| x.as_bool());
    }
    Ok(e)
}

/// HmacSecretInput is non-exhaustive without constructor: decode a minimal instance, then
/// assign every public field from the model.
pub fn build_hmac_input(v: &Value) -> Result<ctap2::get_assertion::HmacSecretInput, String> {
    let minimal = crate::refcbor::encode(&Value::Map(vec![
        kv(
            1,
            Value::Map(vec![
                kv(1, Value::Uint(2)),
                kv(3, Value::int(-25)),
                kv(-1, Value::Uint(1)),
                kv(-2, Value::Bytes(vec![0; 32])),
                kv(-3, Value::Bytes(vec![0; 32])),
            ]),
        ),
        kv(2, Value::Bytes(vec![])),
        kv(3, Value::Bytes(vec![])),
    ]));
    let mut h: ctap2::get_assertion::HmacSecretInput =
        cbor_deserialize(&minimal).map_err(|e| format!("cannot obtain minimal HmacSecretInput: {:?}", e))?;
    h.key_agreement = rs::build_cose_ecdh(v.geti(1).ok_or("model: hmac.1 missing")?)?;
    h.salt_enc = ctap_types::Bytes::from_slice(v.geti(2).and_then(|x| x.as_bytes()).ok_or("model: saltEnc")?)
        .map_err(|_| "model: saltEnc too long")?;
    h.salt_auth = ctap_types::Bytes::from_slice(v.geti(3).and_then(|x| x.as_bytes()).ok_or("model: saltAuth")?)
        .map_err(|_| "model: saltAuth too long")?;
    h.pin_protocol = match v.geti(4) {
        None => None,
        Some(x) => Some(x.as_int().and_then(|i| u32::try_from(i).ok()).ok_or("model: pinProtocol not u32")?),
    };
    Ok(h)
}

pub fn build_ga_ext_in(v: &Value) -> Result<ctap2::get_assertion::ExtensionsInput, String> {
    let mut e = ctap2::get_assertion::ExtensionsInput::default();
    if let Some(x) = v.gets("hmac-secret") {
        e.hmac_secret = Some(build_hmac_input(x)?);
    }
    e.large_blob_key = v.gets("largeBlobKey").and_then(|x| x.as_bool());
    #[cfg(feature = "tpp")]
    {
        e.third_party_payment = v.gets("thirdPartyPayment").and_then(|x| x.as_bool());
    }
    Ok(e)
}

pub fn build_ga_ext_out(v: &Value) -> Result<ctap2::get_assertion::ExtensionsOutput, String> {
    let mut e = ctap2::get_assertion::ExtensionsOutput::default();
    if let Some(x) = v.gets("hmac-secret") {
        e.hmac_secret = Some(
            ctap_types::Bytes::from_slice(x.as_bytes().ok_or("model: hmac-secret output not bytes")?)
                .map_err(|_| "model: hmac-secret output too long")?,
        );
    }
    #[cfg(feature = "tpp")]
    {
        e.third_party_payment = v.gets("thirdPartyPayment").and_then(|x| x.as_bool());
    }
    Ok(e)
}

pub fn build_params(v: &Value) -> Result<PublicKeyCredentialParameters, String> {
    let alg = v.gets("alg").and_then(|x| x.as_int()).ok_or("model: alg")?;
    let ty = v.gets("type").and_then(|x| x.as_str()).ok_or("model: type")?;
    let mut key_type = ctap_types::String::new();
    key_type.push_str(ty).map_err(|_| "model: type too long")?;
    Ok(PublicKeyCredentialParameters { alg: i32::try_from(alg).map_err(|_| "model: alg range")?, key_type })
}

pub fn pin_sub_of(n: u64) -> Option<ctap2::client_pin::PinV1Subcommand> {
    use ctap2::client_pin::PinV1Subcommand as P;
    Some(match n {
        1 => P::GetRetries,
        2 => P::GetKeyAgreement,
        3 => P::SetPin,
        4 => P::ChangePin,
        5 => P::GetPinToken,
        6 => P::GetPinUvAuthTokenUsingUvWithPermissions,
        7 => P::GetUVRetries,
        9 => P::GetPinUvAuthTokenUsingPinWithPermissions,
        _ => return None,
    })
}

pub fn cm_sub_of(n: u64) -> Option<ctap2::credential_management::Subcommand> {
    use ctap2::credential_management::Subcommand as S;
    Some(match n {
        1 => S::GetCredsMetadata,
        2 => S::EnumerateRpsBegin,
        3 => S::EnumerateRpsGetNextRp,
        4 => S::EnumerateCredentialsBegin,
        5 => S::EnumerateCredentialsGetNextCredential,
        6 => S::DeleteCredential,
        7 => S::UpdateUserInformation,
        _ => return None,
    })
}

pub fn cred_protect_of(n: u64) -> Option<ctap2::credential_management::CredentialProtectionPolicy> {
    use ctap2::credential_management::CredentialProtectionPolicy as P;
    Some(match n {
        1 => P::Optional,
        2 => P::OptionalWithCredentialIdList,
        3 => P::Required,
        _ => return None,
    })
}

/// Construct the value through the public API from the model and serialise it.
/// `None`: this type cannot be constructed other than by decoding.
pub fn build_ser(t: T, v: &Value) -> Option<SR> {
    macro_rules! go {
        ($b:expr) => {
            Some($b.and_then(|x| ser(&x)))
        };
    }
    match t {
        T::CpRequest | T::CmRequest | T::CmSubParams | T::LbRequest => None,
        T::GetInfo => go!(rs::build_getinfo(v)),
        T::CpResponse => go!(rs::build_cp_resp(v)),
        T::LbResponse => go!(rs::build_lb_resp(v)),
        T::HmacInput => go!(build_hmac_input(v)),
        T::AuthOptions => go!(build_auth_options(v)),
        T::McExt => go!(build_mc_ext(v)),
        T::GaExtIn => go!(build_ga_ext_in(v)),
        T::GaExtOut => go!(build_ga_ext_out(v)),
        T::Rp => go!(rs::build_rp(v)),
        T::User => go!(rs::build_user(v)),
        T::Descriptor => go!(rs::build_descriptor(v)),
        T::DescriptorRef => {
            let id = v.gets("id").and_then(|x| x.as_bytes());
            let ty = v.gets("type").and_then(|x| x.as_str());
            match (id, ty) {
                (Some(id), Some(ty)) => {
                    Some(ser(&PublicKeyCredentialDescriptorRef { id: serde_bytes::Bytes::new(id), key_type: ty }))
                }
                _ => Some(Err("model: descriptor".into())),
            }
        }
        T::Params => go!(build_params(v)),
        T::FilteredParams => go!(rs::build_algorithms(v)),
        T::CtapOptions => go!(rs::build_ctap_options(v)),
        #[cfg(feature = "gif")]
        T::Certifications => go!(rs::build_certifications(v)),
        #[cfg(not(feature = "gif"))]
        T::Certifications => None,
        T::GaUnsigned => go!(cbor_deserialize::<ctap2::get_assertion::UnsignedExtensionOutputs>(&[0xA0])
            .map_err(|e| format!("{:?}", e))),
        T::Version => go!(v.as_str().ok_or("model".to_string()).and_then(rs::version_of)),
        T::Extension => go!(v.as_str().ok_or("model".to_string()).and_then(rs::extension_of)),
        T::Transport => go!(v.as_str().ok_or("model".to_string()).and_then(rs::transport_of)),
        T::AttFormat => go!(v.as_str().ok_or("model".to_string()).and_then(rs::att_format_of)),
        T::PinSub => go!(v.as_int().and_then(|n| pin_sub_of(n as u64)).ok_or("model".to_string())),
        T::CmSub => go!(v.as_int().and_then(|n| cm_sub_of(n as u64)).ok_or("model".to_string())),
        T::CredProtect => go!(v.as_int().and_then(|n| cred_protect_of(n as u64)).ok_or("model".to_string())),
        T::CosePublic => go!(rs::build_cose_public(v)),
        T::CoseEcdh => go!(rs::build_cose_ecdh(v)),
        T::CoseP256 => go!(rs::build_cose_public(v).and_then(|k| match k {
            cosey::PublicKey::P256Key(k) => Ok(k),
            _ => Err("model: not P256".to_string()),
        })),
        T::CoseEd25519 => go!(rs::build_cose_public(v).and_then(|k| match k {
            cosey::PublicKey::Ed25519Key(k) => Ok(k),
            _ => Err("model: not Ed25519".to_string()),
        })),
        T::PackedAtt => go!(rs::build_att_stmt(v).and_then(|a| match a {
            ctap2::AttestationStatement::Packed(p) => Ok(p),
            _ => Err("model: not packed".to_string()),
        })),
        T::McResponse => go!(rs::build_mc_resp(v)),
        T::GaResponse => go!(rs::build_ga_resp(v)),
        T::CmResponse => go!(rs::build_cm_resp(v)),
    }
}

/// decode `bytes` as `t`, re-encode, and check decode(re-encoded) == decoded.
/// Returns the re-encoded bytes. `None` for serialise-only types.
pub fn decode_reencode(t: T, bytes: &[u8]) -> Option<SR> {
    macro_rules! rt {
        ($ty:ty) => {{
            let r: SR = (|| {
                let v: $ty = cbor_deserialize(bytes).map_err(|e| format!("decode: rejected with {:?}", e))?;
                let out = ser(&v)?;
                let v2: $ty = cbor_deserialize(&out).map_err(|e| format!("decode-of-reencoded: rejected with {:?}", e))?;
                if v2 != v {
                    return Err(format!("decode-of-reencoded: differs: {:?} vs {:?}", v, v2));
                }
                Ok(out)
            })();
            Some(r)
        }};
    }
    match t {
        T::CpRequest => rt!(ctap2::client_pin::Request),
        T::CmRequest => rt!(ctap2::credential_management::Request),
        T::CmSubParams => rt!(ctap2::credential_management::SubcommandParameters),
        T::LbRequest => rt!(ctap2::large_blobs::Request),
        T::GetInfo => rt!(ctap2::get_info::Response),
        T::CpResponse => rt!(ctap2::client_pin::Response),
        T::LbResponse => rt!(ctap2::large_blobs::Response),
        T::HmacInput => rt!(ctap2::get_assertion::HmacSecretInput),
        T::AuthOptions => rt!(ctap2::AuthenticatorOptions),
        T::McExt => rt!(ctap2::make_credential::Extensions),
        T::GaExtIn => rt!(ctap2::get_assertion::ExtensionsInput),
        T::GaExtOut => rt!(ctap2::get_assertion::ExtensionsOutput),
        T::Rp => rt!(PublicKeyCredentialRpEntity),
        T::User => rt!(PublicKeyCredentialUserEntity),
        T::Descriptor => rt!(PublicKeyCredentialDescriptor),
        T::DescriptorRef => rt!(PublicKeyCredentialDescriptorRef),
        T::Params => rt!(PublicKeyCredentialParameters),
        T::FilteredParams => rt!(FilteredPublicKeyCredentialParameters),
        T::CtapOptions => rt!(ctap2::get_info::CtapOptions),
        #[cfg(feature = "gif")]
        T::Certifications => rt!(ctap2::get_info::Certifications),
        #[cfg(not(feature = "gif"))]
        T::Certifications => None,
        T::GaUnsigned => rt!(ctap2::get_assertion::UnsignedExtensionOutputs),
        T::Version => rt!(ctap2::get_info::Version),
        T::Extension => rt!(ctap2::get_info::Extension),
        T::Transport => rt!(ctap2::get_info::Transport),
        T::AttFormat => rt!(ctap2::AttestationStatementFormat),
        T::PinSub => rt!(ctap2::client_pin::PinV1Subcommand),
        T::CmSub => rt!(ctap2::credential_management::Subcommand),
        T::CredProtect => rt!(ctap2::credential_management::CredentialProtectionPolicy),
        T::CosePublic => rt!(cosey::PublicKey),
        T::CoseEcdh => rt!(cosey::EcdhEsHkdf256PublicKey),
        T::CoseP256 => rt!(cosey::P256PublicKey),
        T::CoseEd25519 => rt!(cosey::Ed25519PublicKey),
        T::PackedAtt | T::McResponse | T::GaResponse | T::CmResponse => None,
    }
}

/// Construct through the public API, encode, decode: must be equal to what was constructed.
pub fn build_roundtrip(t: T, v: &Value) -> Option<Result<Vec<u8>, String>> {
    macro_rules! rt {
        ($ty:ty, $b:expr) => {{
            let r: SR = (|| {
                let x: $ty = $b?;
                let out = ser(&x)?;
                let y: $ty = cbor_deserialize(&out).map_err(|e| format!("decode-of-encoded: rejected with {:?}", e))?;
                if y != x {
                    return Err(format!("decode-of-encoded: differs: built {:?}, decoded {:?}", x, y));
                }
                Ok(out)
            })();
            Some(r)
        }};
    }
    match t {
        T::GetInfo => rt!(ctap2::get_info::Response, rs::build_getinfo(v)),
        T::CpResponse => rt!(ctap2::client_pin::Response, rs::build_cp_resp(v)),
        T::LbResponse => rt!(ctap2::large_blobs::Response, rs::build_lb_resp(v)),
        T::HmacInput => rt!(ctap2::get_assertion::HmacSecretInput, build_hmac_input(v)),
        T::AuthOptions => rt!(ctap2::AuthenticatorOptions, build_auth_options(v)),
        T::McExt => rt!(ctap2::make_credential::Extensions, build_mc_ext(v)),
        T::GaExtIn => rt!(ctap2::get_assertion::ExtensionsInput, build_ga_ext_in(v)),
        T::GaExtOut => rt!(ctap2::get_assertion::ExtensionsOutput, build_ga_ext_out(v)),
        T::Rp => rt!(PublicKeyCredentialRpEntity, rs::build_rp(v)),
        T::User => rt!(PublicKeyCredentialUserEntity, rs::build_user(v)),
        T::Descriptor => rt!(PublicKeyCredentialDescriptor, rs::build_descriptor(v)),
        T::Params => rt!(PublicKeyCredentialParameters, build_params(v)),
        T::FilteredParams => rt!(FilteredPublicKeyCredentialParameters, rs::build_algorithms(v)),
        T::CtapOptions => rt!(ctap2::get_info::CtapOptions, rs::build_ctap_options(v)),
        #[cfg(feature = "gif")]
        T::Certifications => rt!(ctap2::get_info::Certifications, rs::build_certifications(v)),
        T::Version => rt!(ctap2::get_info::Version, v.as_str().ok_or("model".to_string()).and_then(rs::version_of)),
        T::Extension => rt!(ctap2::get_info::Extension, v.as_str().ok_or("model".to_string()).and_then(rs::extension_of)),
        T::Transport => rt!(ctap2::get_info::Transport, v.as_str().ok_or("model".to_string()).and_then(rs::transport_of)),
        T::AttFormat => rt!(ctap2::AttestationStatementFormat, v.as_str().ok_or("model".to_string()).and_then(rs::att_format_of)),
        T::PinSub => rt!(ctap2::client_pin::PinV1Subcommand, v.as_int().and_then(|n| pin_sub_of(n as u64)).ok_or("model".to_string())),
        T::CmSub => rt!(ctap2::credential_management::Subcommand, v.as_int().and_then(|n| cm_sub_of(n as u64)).ok_or("model".to_string())),
        T::CredProtect => rt!(
            ctap2::credential_management::CredentialProtectionPolicy,
            v.as_int().and_then(|n| cred_protect_of(n as u64)).ok_or("model".to_string())
        ),
        T::CosePublic => rt!(cosey::PublicKey, rs::build_cose_public(v)),
        T::CoseEcdh => rt!(cosey::EcdhEsHkdf256PublicKey, rs::build_cose_ecdh(v)),
        _ => None,
    }
}
