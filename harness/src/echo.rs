//! An authenticator that answers every command with a value chosen by the harness, so that a
//! response value can be sent through the crate's dispatch entry points (`call_ctap2`,
//! `Rpc::call`) before it is serialised: whatever the dispatcher does to a handler's answer
//! becomes part of what the encode oracles see.

use crate::refcbor::{self, Value};
use crate::reqmodel::{message, CMD_CM, CMD_CP, CMD_GA, CMD_LB, CMD_MC};
use ctap_types::ctap2::{self, Response};

pub struct Echo {
    pub answer: Response,
    pub calls: u32,
}

impl Echo {
    fn wrong<T>(&mut self) -> ctap2::Result<T> {
        self.calls += 1;
        Err(ctap_types::Error::Other)
    }
}

macro_rules! give {
    ($self:ident, $variant:ident) => {{
        $self.calls += 1;
        match &$self.answer {
            Response::$variant(v) => Ok(v.clone()),
            _ => Err(ctap_types::Error::Other),
        }
    }};
}

impl ctap2::Authenticator for Echo {
    fn get_info(&mut self) -> ctap2::get_info::Response {
        self.calls += 1;
        match &self.answer {
            Response::GetInfo(v) => v.clone(),
            _ => ctap2::get_info::ResponseBuilder { versions: ctap_types::Vec::new(), aaguid: ctap_types::Bytes::new() }.build(),
        }
    }
    fn make_credential(&mut self, _: &ctap2::make_credential::Request) -> ctap2::Result<ctap2::make_credential::Response> {
        give!(self, MakeCredential)
    }
    fn get_assertion(&mut self, _: &ctap2::get_assertion::Request) -> ctap2::Result<ctap2::get_assertion::Response> {
        give!(self, GetAssertion)
    }
    fn get_next_assertion(&mut self) -> ctap2::Result<ctap2::get_assertion::Response> {
        give!(self, GetNextAssertion)
    }
    fn reset(&mut self) -> ctap2::Result<()> {
        self.calls += 1;
        if matches!(self.answer, Response::Reset) { Ok(()) } else { self.wrong() }
    }
    fn client_pin(&mut self, _: &ctap2::client_pin::Request) -> ctap2::Result<ctap2::client_pin::Response> {
        give!(self, ClientPin)
    }
    fn credential_management(&mut self, _: &ctap2::credential_management::Request) -> ctap2::Result<ctap2::credential_management::Response> {
        give!(self, CredentialManagement)
    }
    fn selection(&mut self) -> ctap2::Result<()> {
        self.calls += 1;
        if matches!(self.answer, Response::Selection) { Ok(()) } else { self.wrong() }
    }
    fn vendor(&mut self, _: ctap2::VendorOperation) -> ctap2::Result<()> {
        self.calls += 1;
        if matches!(self.answer, Response::Vendor) { Ok(()) } else { self.wrong() }
    }
    fn large_blobs(&mut self, _: &ctap2::large_blobs::Request) -> ctap2::Result<ctap2::large_blobs::Response> {
        give!(self, LargeBlobs)
    }
}

fn t(s: &str) -> Value {
    Value::text(s)
}

/// The smallest well-formed message of the command that is answered with this response variant.
pub fn request_message_for(r: &Response) -> Vec<u8> {
    match r {
        Response::MakeCredential(_) => message(
            CMD_MC,
            &Value::Map(vec![
                (Value::int(1), Value::Bytes(vec![7; 32])),
                (Value::int(2), Value::Map(vec![(t("id"), t("example.org"))])),
                (Value::int(3), Value::Map(vec![(t("id"), Value::Bytes(vec![1]))])),
                (Value::int(4), Value::Array(vec![Value::Map(vec![(t("alg"), Value::int(-7)), (t("type"), t("public-key"))])])),
            ]),
        ),
        Response::GetAssertion(resp) => {
            // the request this answer belongs to: often its allowList names the very credential that
            // is returned (alone, first of two, second of two), sometimes another one, sometimes none
            let mut m = vec![(Value::int(1), t("example.org")), (Value::int(2), Value::Bytes(vec![7; 32]))];
            let same = Value::Map(vec![(t("id"), Value::Bytes(resp.credential.id.to_vec())), (t("type"), Value::text(resp.credential.key_type.as_str()))]);
            let other = Value::Map(vec![(t("id"), Value::Bytes(vec![0xEE; 9])), (t("type"), t("public-key"))]);
            let sel = (resp.credential.id.len() + resp.signature.len() + resp.auth_data.len()) % 6;
            let list = match sel {
                0 => None,
                1 => Some(vec![same]),
                2 => Some(vec![same, other]),
                3 => Some(vec![other, same]),
                4 => Some(vec![other]),
                _ => Some(vec![]),
            };
            if let Some(l) = list {
                m.push((Value::int(3), Value::Array(l)));
            }
            message(CMD_GA, &Value::Map(m))
        }
        Response::GetNextAssertion(_) => vec![0x08],
        Response::GetInfo(_) => vec![0x04],
        Response::ClientPin(_) => message(CMD_CP, &Value::Map(vec![(Value::int(1), Value::int(1)), (Value::int(2), Value::int(1))])),
        Response::Reset => vec![0x07],
        Response::Selection => vec![0x0B],
        Response::CredentialManagement(_) => message(CMD_CM, &Value::Map(vec![(Value::int(1), Value::int(1))])),
        Response::LargeBlobs(_) => message(CMD_LB, &Value::Map(vec![(Value::int(1), Value::int(0)), (Value::int(3), Value::int(0))])),
        Response::Vendor => vec![0x50],
        _ => vec![0x04],
    }
}

/// Send `answer` through a dispatch entry point (0 = `Authenticator::call_ctap2`, 1 = `Rpc::call`)
/// as the handler's result for the matching command. `Err("harness…")` when the harness's own
/// request message does not decode (never a property violation).
pub fn through_dispatch(answer: &Response, entry: usize) -> Result<Result<Response, u8>, String> {
    let msg = request_message_for(answer);
    let req = ctap2::Request::deserialize(&msg).map_err(|e| format!("harness: minimal request {} rejected with 0x{:02x}", crate::util::hex(&msg), e as u8))?;
    let mut echo = Echo { answer: answer.clone(), calls: 0 };
    let got = if entry == 0 {
        ctap2::Authenticator::call_ctap2(&mut echo, &req)
    } else {
        <Echo as ctap_types::Rpc<ctap_types::Error, ctap2::Request<'_>, Response>>::call(&mut echo, &req)
    };
    let _ = refcbor::encode;
    Ok(got.map_err(|e| e as u8))
}
