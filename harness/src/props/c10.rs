//! C10 — each request reaches exactly the authenticator method for its command.

use crate::refcbor;
use crate::reqmodel::*;
use crate::respmodel as rs;
use crate::run::{idx, CaseResult, Ctx, Fail, Gen, Obs};
use crate::util::{hex, Src};
use ctap_types::ctap1;
use ctap_types::ctap2::{self, Error as E2};
use ctap_types::Rpc;
use iso7816::Status as E1;
use serde_json::json;

pub const HANDLERS2: [&str; 10] = [
    "get_info", "make_credential", "get_assertion", "get_next_assertion", "reset", "client_pin", "credential_management", "selection", "vendor", "large_blobs",
];

/// every named CTAP2 status (a handler may return any of them, incl. Success and the range markers)
const ERRS2: [E2; 55] = [
    E2::Success, E2::InvalidCommand, E2::InvalidParameter, E2::InvalidLength, E2::InvalidSeq, E2::Timeout, E2::ChannelBusy, E2::LockRequired,
    E2::InvalidChannel, E2::CborUnexpectedType, E2::InvalidCbor, E2::MissingParameter, E2::LimitExceeded, E2::UnsupportedExtension,
    E2::FingerprintDatabaseFull, E2::LargeBlobStorageFull, E2::CredentialExcluded, E2::Processing, E2::InvalidCredential, E2::UserActionPending,
    E2::OperationPending, E2::NoOperations, E2::UnsupportedAlgorithm, E2::OperationDenied, E2::KeyStoreFull, E2::NotBusy, E2::NoOperationPending,
    E2::UnsupportedOption, E2::InvalidOption, E2::KeepaliveCancel, E2::NoCredentials, E2::UserActionTimeout, E2::NotAllowed, E2::PinInvalid,
    E2::PinBlocked, E2::PinAuthInvalid, E2::PinAuthBlocked, E2::PinNotSet, E2::PinRequired, E2::PinPolicyViolation, E2::PinTokenExpired,
    E2::RequestTooLarge, E2::ActionTimeout, E2::UpRequired, E2::UvBlocked, E2::IntegrityFailure, E2::InvalidSubcommand, E2::UvInvalid,
    E2::UnauthorizedPermission, E2::Other, E2::SpecLast, E2::ExtensionFirst, E2::ExtensionLast, E2::VendorFirst, E2::VendorLast,
];
/// a broad sample of ISO 7816 status words, incl. Success and parameterised ones
const ERRS1: [E1; 30] = [
    // the catch-all representation of a status word, for words that also have a named variant and
    // for one that has none (an error value must come back exactly as the handler returned it)
    E1::__Unknown(0x6985), E1::__Unknown(0x9000), E1::__Unknown(0x6A80), E1::__Unknown(0x6100), E1::__Unknown(0x63C1), E1::__Unknown(0x1234),
    E1::Success, E1::ConditionsOfUseNotSatisfied, E1::IncorrectDataParameter, E1::WrongLength, E1::NotFound, E1::UnspecifiedCheckingError,
    E1::ClassNotSupported, E1::InstructionNotSupportedOrInvalid, E1::SecurityStatusNotSatisfied, E1::OperationBlocked, E1::NotEnoughMemory,
    E1::IncorrectP1OrP2Parameter, E1::FunctionNotSupported, E1::KeyReferenceNotFound, E1::LogicalChannelNotSupported,
    E1::SecureMessagingNotSupported, E1::CommandChainingNotSupported, E1::UnspecifiedNonpersistentExecutionError,
    E1::UnspecifiedPersistentExecutionError, E1::MoreAvailable(7), E1::RemainingRetries(3), E1::VerificationFailed, E1::DataUnchangedWarning,
    E1::CorruptedData,
];

struct Mock {
    /// varies the handlers' success values from case to case (every optional member set)
    salt: u32,
    log: Vec<(&'static str, String)>,
    /// per handler: None = success, Some(i) = ERRS[i]
    table: [Option<usize>; 10],
    table1: [Option<usize>; 2],
    has_large_blobs: bool,
}

/// A handler's answer that is RELATED to the request it answers (as real answers are): well-formed
/// authenticator data whose rpIdHash repeats the request's clientDataHash and whose credential id
/// is one of the ids on the request's exclude list (or a fresh one). A dispatcher must pass it on
/// whatever the relation.
fn mc_value_for(id: u8, salt: u32, req: &ctap2::make_credential::Request) -> ctap2::make_credential::Response {
    let mut r = mc_value(id, salt);
    if salt & 8 == 0 {
        let mut ad: Vec<u8> = req.client_data_hash.iter().copied().chain(core::iter::repeat(0x11)).take(32).collect();
        ad.push(0x41 | if salt & 16 == 0 { 0x80 } else { 0 });
        ad.extend_from_slice(&salt.to_be_bytes());
        ad.extend_from_slice(&[0xA7; 16]);
        let cred: Vec<u8> = match req.exclude_list.as_ref().and_then(|l| l.get((salt as usize >> 5) % l.len().max(1))) {
            Some(d) if salt & 32 == 0 && d.id.len() <= 200 => d.id.to_vec(),
            _ => vec![id, 0xC0, salt as u8],
        };
        ad.extend_from_slice(&(cred.len() as u16).to_be_bytes());
        ad.extend_from_slice(&cred);
        // a P-256 COSE key
        ad.extend_from_slice(&[0xA5, 0x01, 0x02, 0x03, 0x26, 0x20, 0x01, 0x21, 0x58, 0x20]);
        ad.extend_from_slice(&[0x44; 32]);
        ad.extend_from_slice(&[0x22, 0x58, 0x20]);
        ad.extend_from_slice(&[0x55; 32]);
        if salt & 16 == 0 {
            ad.extend_from_slice(&[0xA1, 0x6B, b'h', b'm', b'a', b'c', b'-', b's', b'e', b'c', b'r', b'e', b't', 0xF5]);
        }
        if let Ok(b) = ctap_types::Bytes::from_slice(&ad) {
            r.auth_data = b;
        }
    }
    r
}

fn mc_value(id: u8, salt: u32) -> ctap2::make_credential::Response {
    let mut r = ctap2::make_credential::ResponseBuilder {
        fmt: if salt & 1 == 0 { ctap2::AttestationStatementFormat::Packed } else { ctap2::AttestationStatementFormat::None },
        auth_data: ctap_types::Bytes::from_slice(&[id, 0xAA, salt as u8]).unwrap(),
    }
    .build();
    r.ep_att = Some(salt & 2 == 0);
    r.large_blob_key = Some(ctap_types::ByteArray::new([salt as u8; 32]));
    r.att_stmt = Some(if salt & 4 == 0 {
        ctap2::AttestationStatement::None(ctap2::NoneAttestationStatement {})
    } else {
        ctap2::AttestationStatement::Packed(ctap2::PackedAttestationStatement { alg: -7, sig: ctap_types::Bytes::from_slice(&[id; 9]).unwrap(), x5c: None })
    });
    r
}
fn ga_value(id: u8, salt: u32) -> ctap2::get_assertion::Response {
    let mut r = ctap2::get_assertion::ResponseBuilder {
        credential: ctap_types::webauthn::PublicKeyCredentialDescriptor { id: ctap_types::Bytes::from_slice(&[id, salt as u8]).unwrap(), key_type: ctap_types::String::from("public-key") },
        auth_data: ctap_types::Bytes::from_slice(&[id, 0xBB]).unwrap(),
        signature: ctap_types::Bytes::from_slice(&[id, 0xCC]).unwrap(),
    }
    .build();
    // every optional member set, with values that vary: a dispatcher that edits the handler's
    // result (clears, defaults or recomputes a member) becomes visible
    r.number_of_credentials = Some([0u32, 1, 2, 3, 7][(salt % 5) as usize] + id as u32 * 0);
    r.user_selected = Some(salt & 8 == 0);
    r.ep_att = Some(salt & 16 == 0);
    r.large_blob_key = Some(ctap_types::ByteArray::new([id; 32]));
    let mut u = ctap_types::webauthn::PublicKeyCredentialUserEntity::from(ctap_types::Bytes::from_slice(&[id; 5]).unwrap());
    u.name = Some(ctap_types::String::from("n"));
    r.user = Some(u);
    r
}
fn cp_value(id: u8, salt: u32) -> ctap2::client_pin::Response {
    let mut r = ctap2::client_pin::Response::default();
    r.retries = Some(id.wrapping_add(salt as u8));
    r.uv_retries = Some((salt >> 3) as u8);
    r.power_cycle_state = Some(salt & 1 == 1);
    r.pin_token = Some(ctap_types::Bytes::from_slice(&[id; 32]).unwrap());
    r
}
fn cm_value(id: u8, salt: u32) -> ctap2::credential_management::Response {
    let mut r = ctap2::credential_management::Response::default();
    r.total_rps = Some(id as u32 + (salt % 4));
    r.existing_resident_credentials_count = Some(salt % 3);
    r.max_possible_remaining_residential_credentials_count = Some(salt % 7);
    r.total_credentials = Some(salt % 5);
    r.rp_id_hash = Some(ctap_types::ByteArray::new([id; 32]));
    r
}
fn lb_value(id: u8, salt: u32) -> ctap2::large_blobs::Response {
    let mut r = ctap2::large_blobs::Response::default();
    // a fragment whose length varies and is unrelated to what the request asked for (as long as
    // the configuration's fragment capacity allows; it is 0 without `large-blobs`)
    let want = [0usize, 1, 16, 17, 64, 300, 1024, 3008][(salt % 8) as usize];
    let mut frag = ctap_types::Bytes::new();
    for i in 0..want {
        if frag.push(id ^ (i as u8)).is_err() {
            break;
        }
    }
    r.config = Some(frag);
    r
}
fn gi_value(id: u8, salt: u32) -> ctap2::get_info::Response {
    let mut r = ctap2::get_info::ResponseBuilder { versions: ctap_types::Vec::new(), aaguid: ctap_types::Bytes::from_slice(&[id; 16]).unwrap() }.build();
    r.max_msg_size = Some([1024usize, 1200, 7609, 0, 64][(salt % 5) as usize]);
    r.max_serialized_large_blob_array = Some(1024 + (salt % 3) as usize);
    r.max_creds_in_list = Some((salt % 11) as usize);
    let mut o = ctap2::get_info::CtapOptions::default();
    o.large_blobs = Some(salt & 1 == 0);
    o.client_pin = Some(salt & 2 == 0);
    o.cred_mgmt = Some(salt & 4 == 0);
    o.rk = salt & 8 == 0;
    o.up = salt & 16 == 0;
    r.options = Some(o);
    r
}

impl Mock {
    fn outcome2<T>(&mut self, h: usize, arg: String, ok: T) -> Result<T, E2> {
        self.log.push((HANDLERS2[h], arg));
        match self.table[h] {
            None => Ok(ok),
            Some(i) => Err(ERRS2[i % ERRS2.len()]),
        }
    }
}

macro_rules! impl_ctap2 {
    ($ty:ty, $lb:tt) => {
        impl ctap2::Authenticator for $ty {
            fn get_info(&mut self) -> ctap2::get_info::Response {
                self.0.log.push((HANDLERS2[0], String::new()));
                gi_value(0, self.0.salt)
            }
            fn make_credential(&mut self, r: &ctap2::make_credential::Request) -> ctap2::Result<ctap2::make_credential::Response> {
                { let s = self.0.salt; self.0.outcome2(1, format!("{:?}", r), mc_value_for(1, s, r)) }
            }
            fn get_assertion(&mut self, r: &ctap2::get_assertion::Request) -> ctap2::Result<ctap2::get_assertion::Response> {
                { let s = self.0.salt; self.0.outcome2(2, format!("{:?}", r), ga_value(2, s)) }
            }
            fn get_next_assertion(&mut self) -> ctap2::Result<ctap2::get_assertion::Response> {
                { let s = self.0.salt; self.0.outcome2(3, String::new(), ga_value(3, s)) }
            }
            fn reset(&mut self) -> ctap2::Result<()> {
                self.0.outcome2(4, String::new(), ())
            }
            fn client_pin(&mut self, r: &ctap2::client_pin::Request) -> ctap2::Result<ctap2::client_pin::Response> {
                { let s = self.0.salt; self.0.outcome2(5, format!("{:?}", r), cp_value(5, s)) }
            }
            fn credential_management(&mut self, r: &ctap2::credential_management::Request) -> ctap2::Result<ctap2::credential_management::Response> {
                { let s = self.0.salt; self.0.outcome2(6, format!("{:?}", r), cm_value(6, s)) }
            }
            fn selection(&mut self) -> ctap2::Result<()> {
                self.0.outcome2(7, String::new(), ())
            }
            fn vendor(&mut self, op: ctap2::VendorOperation) -> ctap2::Result<()> {
                self.0.outcome2(8, format!("{:?}", op), ())
            }
            impl_ctap2!(@lb $lb);
        }
    };
    (@lb true) => {
        fn large_blobs(&mut self, r: &ctap2::large_blobs::Request) -> ctap2::Result<ctap2::large_blobs::Response> {
            { let s = self.0.salt; self.0.outcome2(9, format!("{:?}", r), lb_value(9, s)) }
        }
    };
    (@lb false) => {};
}

/// overrides the provided dispatcher method itself
struct Gate {
    calls: u32,
    deny: bool,
}
impl ctap2::Authenticator for Gate {
    fn call_ctap2(&mut self, _request: &ctap2::Request<'_>) -> ctap2::Result<ctap2::Response> {
        self.calls += 1;
        if self.deny {
            Err(E2::OperationDenied)
        } else {
            Ok(ctap2::Response::Selection)
        }
    }
    fn get_info(&mut self) -> ctap2::get_info::Response {
        gi_value(0, 0)
    }
    fn make_credential(&mut self, _: &ctap2::make_credential::Request) -> ctap2::Result<ctap2::make_credential::Response> {
        Err(E2::Other)
    }
    fn get_assertion(&mut self, _: &ctap2::get_assertion::Request) -> ctap2::Result<ctap2::get_assertion::Response> {
        Err(E2::Other)
    }
    fn get_next_assertion(&mut self) -> ctap2::Result<ctap2::get_assertion::Response> {
        Err(E2::Other)
    }
    fn reset(&mut self) -> ctap2::Result<()> {
        Err(E2::Other)
    }
    fn client_pin(&mut self, _: &ctap2::client_pin::Request) -> ctap2::Result<ctap2::client_pin::Response> {
        Err(E2::Other)
    }
    fn credential_management(&mut self, _: &ctap2::credential_management::Request) -> ctap2::Result<ctap2::credential_management::Response> {
        Err(E2::Other)
    }
    fn selection(&mut self) -> ctap2::Result<()> {
        Err(E2::Other)
    }
    fn vendor(&mut self, _: ctap2::VendorOperation) -> ctap2::Result<()> {
        Err(E2::Other)
    }
}

struct WithLb(Mock);
struct NoLb(Mock);
impl_ctap2!(WithLb, true);
impl_ctap2!(NoLb, false);

impl ctap1::Authenticator for WithLb {
    fn register(&mut self, r: &ctap1::register::Request<'_>) -> ctap1::Result<ctap1::register::Response> {
        self.0.log.push(("register", format!("{:?}", r)));
        match self.0.table1[0] {
            None => Ok(reg_value(self.0.salt)),
            Some(i) => Err(ERRS1[i % ERRS1.len()]),
        }
    }
    fn authenticate(&mut self, r: &ctap1::authenticate::Request<'_>) -> ctap1::Result<ctap1::authenticate::Response> {
        self.0.log.push(("authenticate", format!("{:?}", r)));
        match self.0.table1[1] {
            None => Ok(auth_value(self.0.salt)),
            Some(i) => Err(ERRS1[i % ERRS1.len()]),
        }
    }
    fn version() -> [u8; 6] {
        *b"MOCKV1"
    }
}

fn reg_value(salt: u32) -> ctap1::register::Response {
    let key = cosey::EcdhEsHkdf256PublicKey { x: ctap_types::Bytes::from_slice(&[1; 32]).unwrap(), y: ctap_types::Bytes::from_slice(&[2; 32]).unwrap() };
    // certificates as they come out of storage: opaque bytes, or a DER SEQUENCE whose declared
    // length is exact, shorter than the buffer (padding behind the certificate) or longer
    let total = [100usize, 140, 300, 9][(salt % 4) as usize];
    let mut cert = vec![5u8; total];
    match (salt / 4) % 4 {
        0 => {}
        k => {
            let declared = match k {
                1 => total,
                2 => total.saturating_sub(7),
                _ => total + 5,
            };
            cert[0] = 0x30;
            if total >= 4 && declared >= 4 + 128 {
                if declared - 4 > 255 {
                    cert[1] = 0x82;
                    cert[2] = ((declared - 4) >> 8) as u8;
                    cert[3] = (declared - 4) as u8;
                } else {
                    cert[1] = 0x81;
                    cert[2] = (declared - 3) as u8;
                }
            } else if total >= 2 {
                cert[1] = (declared.saturating_sub(2) as u8) & 0x7F;
            }
            if salt & 64 == 0 {
                let n = cert.len();
                cert[n - 1] = 0xFF;
            }
        }
    }
    ctap1::register::Response::new(salt as u8, &key, ctap_types::Bytes::from_slice(&[3; 9]).unwrap(), ctap_types::Bytes::from_slice(&[4; 70]).unwrap(), ctap_types::Bytes::from_slice(&cert).unwrap())
}
fn auth_value(salt: u32) -> ctap1::authenticate::Response {
    // the presence byte and counter vary (0x00, 0x01, 0x02, 0x80, 0xFE ...): the dispatcher must not interpret them
    ctap1::authenticate::Response { user_presence: [0u8, 1, 2, 0x80, 0xFE, 0xFF, 3][(salt % 7) as usize], count: 0x01020304 ^ salt, signature: ctap_types::Bytes::from_slice(&[6; 71]).unwrap() }
}

/// (handler index, argument rendering, success value) expected for a request
fn expect2(req: &ctap2::Request, salt: u32) -> (usize, String, ctap2::Response) {
    use ctap2::{Request as Q, Response as R};
    match req {
        Q::GetInfo => (0, String::new(), R::GetInfo(gi_value(0, salt))),
        Q::MakeCredential(r) => (1, format!("{:?}", r), R::MakeCredential(mc_value_for(1, salt, r))),
        Q::GetAssertion(r) => (2, format!("{:?}", r), R::GetAssertion(ga_value(2, salt))),
        Q::GetNextAssertion => (3, String::new(), R::GetNextAssertion(ga_value(3, salt))),
        Q::Reset => (4, String::new(), R::Reset),
        Q::ClientPin(r) => (5, format!("{:?}", r), R::ClientPin(cp_value(5, salt))),
        Q::CredentialManagement(r) => (6, format!("{:?}", r), R::CredentialManagement(cm_value(6, salt))),
        Q::Selection => (7, String::new(), R::Selection),
        Q::Vendor(op) => (8, format!("{:?}", op), R::Vendor),
        Q::LargeBlobs(r) => (9, format!("{:?}", r), R::LargeBlobs(lb_value(9, salt))),
        _ => (usize::MAX, String::new(), R::Reset),
    }
}

/// words: [request kind (0..10), vendor code / command selector, behaviour table words (10), payload values...]
fn g_ctap2(src: &mut Src, obs: &mut Obs) -> CaseResult {
    let kind = src.below(10);
    let vendor = 0x40 + (src.below(64) as u8);
    // behaviour table: each handler succeeds or returns one of the distinct errors
    let mut table = [None; 10];
    for t in table.iter_mut() {
        *t = if src.bool() { Some(src.below(ERRS2.len())) } else { None };
    }
    let mut info = Info::default();
    let msg: Vec<u8> = match kind {
        0 => vec![0x04],
        1 => message(CMD_MC, &gen_mc(src, &mut info)),
        2 => message(CMD_GA, &gen_ga(src, &mut info)),
        3 => vec![0x08],
        4 => vec![0x07],
        5 => message(CMD_CP, &gen_cp(src, &mut info)),
        6 => message(if src.bool() { CMD_CM } else { CMD_CM_PREVIEW }, &gen_cm(src, &mut info)),
        7 => vec![0x0B],
        8 => vec![vendor],
        _ => message(CMD_LB, &gen_lb(src, &mut info)),
    };
    let decoded;
    let req = if kind == 8 {
        ctap2::Request::Vendor(ctap2::VendorOperation::try_from(vendor).map_err(|_| Fail::new("C10:harness", "vendor op", json!({})))?)
    } else {
        decoded = ctap2::Request::deserialize(&msg)
            .map_err(|e| Fail::new("C10:harness:request-rejected", format!("0x{:02x}", e as u8), json!({"input_hex": hex(&msg)})))?;
        decoded
    };
    let salt = src.word();
    let (h, arg, ok_value) = expect2(&req, salt);
    obs.labelf(format!("ctap2:{}", HANDLERS2.get(h).unwrap_or(&"?")));
    obs.label(if table[h].is_some() { "handler-fails" } else { "handler-succeeds" });
    // non-trivial: the invoked handler's outcome differs from another handler with the same signature
    let peers: &[usize] = match h {
        2 | 3 => &[2, 3],
        4 | 7 => &[4, 7],
        _ => &[],
    };
    if peers.iter().any(|p| *p != h && table[*p] != table[h]) || table.iter().any(|t| *t != table[h]) {
        obs.nontrivial(&[&msg, &table.iter().map(|t| t.map(|x| x as u8 + 1).unwrap_or(0)).collect::<Vec<u8>>()]);
    }
    let case = || json!({"request": variant_name(&req), "input_hex": hex(&msg[..msg.len().min(200)]), "behaviour": table.iter().map(|t| t.map(|i| format!("{:?}", ERRS2[i])).unwrap_or("Ok".into())).collect::<Vec<_>>()});
    obs.case_with(case);
    obs.sample_with(case);
    let fail = |what: &str, m: String| Fail::new(format!("C10:ctap2:{}:{}", variant_name(&req), what), m, case());
    let want: Result<ctap2::Response, E2> = match (h, table[h]) {
        (0, _) => Ok(ok_value.clone()),
        (_, None) => Ok(ok_value.clone()),
        (_, Some(i)) => Err(ERRS2[i]),
    };
    for entry in 0..2 {
        let mut m = WithLb(Mock { salt, log: vec![], table, table1: [None, None], has_large_blobs: true });
        let got = if entry == 0 {
            ctap2::Authenticator::call_ctap2(&mut m, &req)
        } else {
            <WithLb as Rpc<E2, ctap2::Request, ctap2::Response>>::call(&mut m, &req)
        };
        let ename = ["call_ctap2", "Rpc::call"][entry];
        if m.0.log.len() != 1 {
            return Err(fail("handler-count", format!("{}: {} handlers invoked: {:?}", ename, m.0.log.len(), m.0.log.iter().map(|l| l.0).collect::<Vec<_>>())));
        }
        if m.0.log[0].0 != HANDLERS2[h] {
            return Err(fail("wrong-handler", format!("{}: handler {} invoked, expected {}", ename, m.0.log[0].0, HANDLERS2[h])));
        }
        if m.0.log[0].1 != arg {
            return Err(fail("argument-changed", format!("{}: handler received different parameters", ename)));
        }
        if got != want {
            return Err(fail("result", format!("{}: returned {}, expected {}", ename, render2(&got), render2(&want))));
        }
        let _ = m.0.has_large_blobs;
    }
    // an authenticator that overrides the provided method `call_ctap2` (a gate in front of the
    // dispatcher): the generic entry point must go through the same method
    {
        let mut direct = Gate { calls: 0, deny: salt & 1 == 0 };
        let r1 = ctap2::Authenticator::call_ctap2(&mut direct, &req);
        let mut generic = Gate { calls: 0, deny: salt & 1 == 0 };
        let r2 = <Gate as Rpc<E2, ctap2::Request, ctap2::Response>>::call(&mut generic, &req);
        obs.label("overridden-call_ctap2");
        if r1 != r2 || direct.calls != generic.calls {
            return Err(fail(
                "generic-entry-bypasses-override",
                format!("authenticator overriding call_ctap2: direct call -> {} ({} gate calls), Rpc::call -> {} ({} gate calls)", render2(&r1), direct.calls, render2(&r2), generic.calls),
            ));
        }
    }
    // an authenticator that does not implement large blobs
    if h == 9 {
        let mut m = NoLb(Mock { salt, log: vec![], table, table1: [None, None], has_large_blobs: false });
        let got = ctap2::Authenticator::call_ctap2(&mut m, &req);
        obs.label("default-large-blobs");
        if got != Err(E2::InvalidCommand) || !m.0.log.is_empty() {
            return Err(fail("default-large-blobs", format!("default large_blobs: {:?}, log {:?}", got.as_ref().map(|_| "Ok(..)"), m.0.log.iter().map(|l| l.0).collect::<Vec<_>>())));
        }
    } else if src.chance(1, 4) {
        // the no-large-blobs authenticator behaves identically for everything else
        let mut m = NoLb(Mock { salt, log: vec![], table, table1: [None, None], has_large_blobs: false });
        let got = ctap2::Authenticator::call_ctap2(&mut m, &req);
        if got != want || m.0.log.len() != 1 || m.0.log[0].0 != HANDLERS2[h] {
            return Err(fail("nolb-authenticator", "authenticator without large blobs dispatches differently".into()));
        }
    }
    Ok(())
}

/// words: [kind (0..3), behaviour (2 words), apdu values...]
fn g_ctap1(src: &mut Src, obs: &mut Obs) -> CaseResult {
    let kind = src.below(3);
    let mut table1 = [None; 2];
    for t in table1.iter_mut() {
        *t = if src.bool() { Some(src.below(ERRS1.len())) } else { None };
    }
    let klen = src.below(256);
    let mut data = src.bytes(if kind == 0 { 64 } else { 65 + klen });
    if kind == 1 {
        data[64] = klen as u8;
    }
    let payload: &[u8] = if kind == 2 { &[] } else { &data };
    let enc = if payload.len() > 255 { 2 } else { src.below(2) };
    let p1 = *src.pick(&[3u8, 7, 8]);
    let apdu = crate::props::c08::frame(0, [1u8, 2, 3][kind], p1, 0, payload, enc).ok_or_else(|| Fail::new("C10:harness:frame", "frame", json!({})))?;
    let cmd = iso7816::Command::<7609>::try_from(&apdu[..]).map_err(|e| Fail::new("C10:harness:apdu", format!("{:?}", e), json!({})))?;
    let req = ctap1::Request::try_from(&cmd).map_err(|e| Fail::new("C10:harness:ctap1-request", format!("{:?}", e), json!({"apdu_hex": hex(&apdu)})))?;
    let salt = src.word();
    let (hname, arg, want): (&str, String, Result<ctap1::Response, E1>) = match &req {
        ctap1::Request::Register(r) => ("register", format!("{:?}", r), table1[0].map(|i| Err(ERRS1[i])).unwrap_or(Ok(ctap1::Response::Register(reg_value(salt))))),
        ctap1::Request::Authenticate(r) => ("authenticate", format!("{:?}", r), table1[1].map(|i| Err(ERRS1[i])).unwrap_or(Ok(ctap1::Response::Authenticate(auth_value(salt))))),
        ctap1::Request::Version => ("", String::new(), Ok(ctap1::Response::Version(*b"MOCKV1"))),
    };
    obs.labelf(format!("ctap1:{}", if hname.is_empty() { "version" } else { hname }));
    if table1[0] != table1[1] {
        obs.nontrivial(&[&apdu, &[table1[0].map(|x| x as u8 + 1).unwrap_or(0), table1[1].map(|x| x as u8 + 1).unwrap_or(0)]]);
    }
    let case = || json!({"apdu_hex": hex(&apdu[..apdu.len().min(100)]), "behaviour": format!("{:?}", table1)});
    obs.case_with(case);
    obs.sample_with(case);
    let fail = |what: &str, m: String| Fail::new(format!("C10:ctap1:{}:{}", if hname.is_empty() { "version" } else { hname }, what), m, case());
    for entry in 0..2 {
        let mut m = WithLb(Mock { salt, log: vec![], table: [None; 10], table1, has_large_blobs: true });
        let got = if entry == 0 {
            ctap1::Authenticator::call_ctap1(&mut m, &req)
        } else {
            <WithLb as Rpc<E1, ctap1::Request, ctap1::Response>>::call(&mut m, &req)
        };
        let ename = ["call_ctap1", "Rpc::call"][entry];
        let want_log = if hname.is_empty() { 0 } else { 1 };
        if m.0.log.len() != want_log {
            return Err(fail("handler-count", format!("{}: {} handlers invoked", ename, m.0.log.len())));
        }
        if want_log == 1 && (m.0.log[0].0 != hname || m.0.log[0].1 != arg) {
            return Err(fail("wrong-handler-or-argument", format!("{}: {} invoked", ename, m.0.log[0].0)));
        }
        if got != want {
            return Err(fail("result", format!("{}: returned {:?}, expected {:?}", ename, got, want)));
        }
    }
    // an authenticator that overrides the provided method `call_ctap1`
    {
        let mut direct = Gate1 { calls: 0 };
        let r1 = ctap1::Authenticator::call_ctap1(&mut direct, &req);
        let mut generic = Gate1 { calls: 0 };
        let r2 = <Gate1 as Rpc<E1, ctap1::Request, ctap1::Response>>::call(&mut generic, &req);
        if r1 != r2 || direct.calls != generic.calls {
            return Err(fail("generic-entry-bypasses-override", format!("authenticator overriding call_ctap1: direct {:?} ({} calls), Rpc::call {:?} ({} calls)", r1, direct.calls, r2, generic.calls)));
        }
    }
    Ok(())
}

struct Gate1 {
    calls: u32,
}
impl ctap1::Authenticator for Gate1 {
    fn register(&mut self, _: &ctap1::register::Request<'_>) -> ctap1::Result<ctap1::register::Response> {
        Err(E1::NotFound)
    }
    fn authenticate(&mut self, _: &ctap1::authenticate::Request<'_>) -> ctap1::Result<ctap1::authenticate::Response> {
        Err(E1::NotFound)
    }
    fn call_ctap1(&mut self, _: &ctap1::Request<'_>) -> ctap1::Result<ctap1::Response> {
        self.calls += 1;
        Err(E1::OperationBlocked)
    }
}

fn render2(r: &Result<ctap2::Response, E2>) -> String {
    let s = format!("{:?}", r);
    if s.len() > 160 {
        format!("{}...", &s[..160])
    } else {
        s
    }
}

pub const G2: Gen = Gen { name: "c10_ctap2", f: g_ctap2 };
pub const G1: Gen = Gen { name: "c10_ctap1", f: g_ctap1 };

pub fn gens() -> Vec<Gen> {
    vec![G2, G1]
}

pub const RULE: &str = "A recording mock implements both Authenticator traits: every handler appends (name, Debug rendering of its argument) to a log and returns a handler-specific success value in which every optional member is set and whose contents vary from case to case (counts 0/1/2/3/7, presence bytes 0x00/0x01/0x02/0x80/0xFE/0xFF, flags) or one of every named CTAP2 status (55) / 24 ISO 7816 status words incl. Success according to a generated behaviour table (handler -> Ok | Err(e_i)); a second mock leaves large_blobs at its default; a third overrides the provided method call_ctap2 itself (both entry points must go through it); CTAP1 handler errors include the catch-all representation __Unknown(sw) for named and unnamed status words; version() is overridden. Requests: every CTAP2 variant (exhaustive over the 10 variants and all 64 vendor codes 0x40..0x7F; parameter-bearing ones obtained by decoding messages from the C01 generator) and the 3 CTAP1 variants (decoded from framed APDUs), each crossed with proptest behaviour tables and with both entry points (call_ctap2 / call_ctap1 and Rpc::call). Oracle: exactly one log entry (none for CTAP1 Version), for the command's handler, with an argument rendering equal to the request payload's; result = Ok(same-named variant(handler value)) or Err(handler error) unchanged; GetInfo Ok whatever the table; default large_blobs -> Err(InvalidCommand) with an empty log; both entry points agree. Non-trivial: the behaviour table gives the invoked handler an outcome that differs from at least one other handler (so cross-wiring is observable).";
pub const ASSUMPTIONS: &[&str] = &["handler arguments are compared through their Debug rendering (the argument types are not Clone-free comparable across the trait boundary)"];

pub fn run(ctx: &mut Ctx) {
    for k in 0..10usize {
        if k == 8 {
            for v in 0..64usize {
                ctx.random(&G2, &[idx(k, 10), idx(v, 64)], ctx.t(40, 2_000), 900);
            }
        } else {
            ctx.random(&G2, &[idx(k, 10)], ctx.t(6_000, 100_000), 900);
        }
        if ctx.too_many() {
            return;
        }
    }
    for k in 0..3usize {
        ctx.random(&G1, &[idx(k, 3)], ctx.t(2_500, 100_000), 120);
    }
    ctx.exhaustive.push("all 10 CTAP2 request variants, all 64 vendor codes, all 3 CTAP1 variants, both entry points".into());
    let _ = (refcbor::show, rs::GIF);
    let mut req: Vec<String> = HANDLERS2.iter().map(|h| format!("ctap2:{}", h)).collect();
    for l in ["ctap1:register", "ctap1:authenticate", "ctap1:version", "handler-fails", "handler-succeeds", "default-large-blobs"] {
        req.push(l.into());
    }
    let r: Vec<&str> = req.iter().map(|s| s.as_str()).collect();
    ctx.require(&r);
}
