//! C18 — protocol identifier tables are exact: every listed name/number, nothing else.

use crate::refcbor::{self, Value};
use crate::run::{idx, pack_bytes, unpack_bytes, CaseResult, Ctx, Fail, Gen, Obs};
use crate::util::{hex, Src};
use ctap_types::ctap1::ControlByte;
use ctap_types::ctap2::client_pin::{Permissions, PinV1Subcommand};
use ctap_types::ctap2::credential_management::{CredentialProtectionPolicy, Subcommand};
use ctap_types::ctap2::get_info::{Extension, Transport, Version};
use ctap_types::ctap2::{AttestationStatementFormat, Error};
use ctap_types::serde::{cbor_deserialize, cbor_serialize};
use serde_json::json;

pub const STRING_ENUMS: [(&str, &[&str]); 4] = [
    ("Version", &["FIDO_2_0", "FIDO_2_1", "FIDO_2_1_PRE", "U2F_V2"]),
    ("Extension", &["credProtect", "hmac-secret", "largeBlobKey", "thirdPartyPayment"]),
    ("Transport", &["nfc", "usb"]),
    ("AttestationStatementFormat", &["none", "packed"]),
];

fn ser<S: serde::Serialize>(v: &S) -> Result<Vec<u8>, String> {
    let mut buf = [0u8; 64];
    cbor_serialize(v, &mut buf).map(|s| s.to_vec()).map_err(|e| format!("{:?}", e))
}

/// (accepted via TryFrom, spelling it converts back to, accepted via the decoder, re-encoding)
fn probe_string(e: usize, s: &str) -> (bool, Option<String>, bool, Option<Vec<u8>>) {
    let enc = refcbor::encode(&Value::text(s));
    macro_rules! go {
        ($ty:ty) => {{
            let a = <$ty>::try_from(s).ok();
            let back = a.map(|v| <&str>::from(v).to_string());
            let d: Option<$ty> = cbor_deserialize(&enc).ok();
            let re = d.and_then(|v| ser(&v).ok());
            (a.is_some(), back, d.is_some(), re)
        }};
    }
    match e {
        0 => go!(Version),
        1 => go!(Extension),
        2 => go!(Transport),
        _ => go!(AttestationStatementFormat),
    }
}

/// words: [enum index, packed string]
fn g_string(src: &mut Src, obs: &mut Obs) -> CaseResult {
    let e = src.below(4);
    let raw = unpack_bytes(src);
    let s = match String::from_utf8(raw) {
        Ok(s) => s,
        Err(_) => {
            obs.excluded = true;
            return Ok(());
        }
    };
    string_case(e, s, obs)
}

/// random strings: a valid spelling of any enumeration with 0..3 random edits, or random text
fn g_string_random(src: &mut Src, obs: &mut Obs) -> CaseResult {
    let e = src.below(4);
    let s = if src.chance(3, 4) {
        let (_, sp) = STRING_ENUMS[src.below(4)];
        let mut b = sp[src.below(sp.len())].as_bytes().to_vec();
        let edits = src.below(4);
        for _ in 0..edits {
            const A: &[u8] = b"ABCDEFGHIJKLMNOPQRSTUVWXYZabcdefghijklmnopqrstuvwxyz0123456789_- ";
            let c = A[src.below(A.len())];
            match src.below(3) {
                0 if !b.is_empty() => {
                    let i = src.below(b.len());
                    b[i] = c;
                }
                1 if !b.is_empty() => {
                    let i = src.below(b.len());
                    b.remove(i);
                }
                _ => {
                    let i = src.below(b.len() + 1);
                    b.insert(i, c);
                }
            }
        }
        String::from_utf8(b).unwrap()
    } else {
        let n = src.range(0, 24);
        crate::util::text_of_len(src, n)
    };
    obs.label("string:random");
    string_case(e, s, obs)
}

fn string_case(e: usize, s: String, obs: &mut Obs) -> CaseResult {
    let (name, valid) = STRING_ENUMS[e];
    let is_valid = valid.contains(&s.as_str());
    obs.labelf(format!("string:{}:{}", name, if is_valid { "valid" } else { "invalid" }));
    obs.nontrivial(&[name.as_bytes(), s.as_bytes()]);
    obs.case_with(|| json!({"enumeration": name, "string": s}));
    obs.sample_with(|| json!({"enumeration": name, "string": s, "expected": if is_valid {"accepted"} else {"rejected"}}));
    let (acc, back, dacc, re) = probe_string(e, &s);
    let fail = |what: &str, m: String| Fail::new(format!("C18:{}:{}:{}", name, what, if is_valid { s.as_str() } else { "invalid-string" }), m, json!({"enumeration": name, "string": s}));
    if acc != is_valid {
        return Err(fail("try_from", format!("{}::try_from({:?}) accepted={}, expected {}", name, s, acc, is_valid)));
    }
    if dacc != is_valid {
        return Err(fail("decoder", format!("decoding {:?} as {} accepted={}, expected {}", s, name, dacc, is_valid)));
    }
    // the same characters under another CBOR type or wrapping are not the identifier: a byte string,
    // a one-element array, a tagged text, a text string with a non-minimal length prefix
    {
        let as_bytes = refcbor::encode(&Value::Bytes(s.as_bytes().to_vec()));
        let as_array = refcbor::encode(&Value::Array(vec![Value::text(&s)]));
        let as_tag = refcbor::encode(&Value::Tag(0, Box::new(Value::text(&s))));
        let mut wide = vec![0x78, s.len() as u8];
        wide.extend_from_slice(s.as_bytes());
        for (what, enc) in [("byte-string", as_bytes), ("array", as_array), ("tagged", as_tag), ("non-minimal-length", wide)] {
            if what == "non-minimal-length" && s.len() >= 24 {
                continue;
            }
            obs.sub_evals += 1;
            let accepted = match e {
                0 => cbor_deserialize::<Version>(&enc).is_ok(),
                1 => cbor_deserialize::<Extension>(&enc).is_ok(),
                2 => cbor_deserialize::<Transport>(&enc).is_ok(),
                _ => cbor_deserialize::<AttestationStatementFormat>(&enc).is_ok(),
            };
            if accepted {
                return Err(Fail::new(
                    format!("C18:{}:decoder:accepted-as-{}", name, what),
                    format!("{:?} encoded as a {} ({}) was accepted as a {}", s, what, hex(&enc), name),
                    json!({"enumeration": name, "string": s, "input_hex": hex(&enc)}),
                ));
            }
        }
    }
    if is_valid {
        if back.as_deref() != Some(s.as_str()) {
            return Err(fail("spelling", format!("{:?} converts to a {} that spells {:?}", s, name, back)));
        }
        if re != Some(refcbor::encode(&Value::text(&s))) {
            return Err(fail("encoding", format!("{} decoded from {:?} re-encodes as {:?}", name, s, re.map(|b| hex(&b)))));
        }
    }
    Ok(())
}

const PIN_SUBS: [u64; 8] = [1, 2, 3, 4, 5, 6, 7, 9];
pub const NUMERIC: [&str; 4] = ["PinV1Subcommand", "credential_management::Subcommand", "CredentialProtectionPolicy", "ControlByte"];

fn valid_numbers(e: usize) -> &'static [u64] {
    match e {
        0 => &PIN_SUBS,
        1 => &[1, 2, 3, 4, 5, 6, 7],
        2 => &[1, 2, 3],
        _ => &[3, 7, 8],
    }
}

/// words: [enum index, negative?, value hi, value lo]
fn g_number(src: &mut Src, obs: &mut Obs) -> CaseResult {
    let e = src.below(4);
    let neg = src.bool();
    let n = ((src.word() as u64) << 32) | src.word() as u64;
    let name = NUMERIC[e];
    let is_valid = !neg && valid_numbers(e).contains(&n);
    obs.labelf(format!("number:{}:{}", name, if is_valid { "valid" } else { "invalid" }));
    obs.nontrivial(&[name.as_bytes(), &n.to_le_bytes(), &[neg as u8]]);
    let shown = if neg { format!("-{}", n as u128 + 1) } else { n.to_string() };
    obs.case_with(|| json!({"enumeration": name, "number": shown}));
    obs.sample_with(|| json!({"enumeration": name, "number": shown, "expected": if is_valid {"accepted"} else {"rejected"}}));
    let fail = |what: &str, m: String| Fail::new(format!("C18:{}:{}:{}", name, what, if is_valid { shown.clone() } else { "invalid-number".into() }), m, json!({"enumeration": name, "number": shown}));
    let enc = refcbor::encode(&if neg { Value::Nint(n) } else { Value::Uint(n) });
    // through the decoder (serde_repr) where the type has one
    let dec: Option<(bool, Option<Vec<u8>>)> = match e {
        0 => {
            let d: Option<PinV1Subcommand> = cbor_deserialize(&enc).ok();
            Some((d.is_some(), d.and_then(|v| ser(&v).ok())))
        }
        1 => {
            let d: Option<Subcommand> = cbor_deserialize(&enc).ok();
            Some((d.is_some(), d.and_then(|v| ser(&v).ok())))
        }
        2 => {
            let d: Option<CredentialProtectionPolicy> = cbor_deserialize(&enc).ok();
            Some((d.is_some(), d.and_then(|v| ser(&v).ok())))
        }
        _ => None,
    };
    if let Some((acc, re)) = dec {
        if acc != is_valid {
            return Err(fail("decoder", format!("decoding {} as {} accepted={}, expected {}", shown, name, acc, is_valid)));
        }
        if is_valid && re != Some(enc.clone()) {
            return Err(fail("encoding", format!("{} {} re-encodes as {:?}", name, shown, re.map(|b| hex(&b)))));
        }
    }
    // through TryFrom<u8> where it exists
    if !neg && n <= 255 {
        let b = n as u8;
        match e {
            2 => {
                let r = CredentialProtectionPolicy::try_from(b);
                if r.is_ok() != is_valid {
                    return Err(fail("try_from", format!("CredentialProtectionPolicy::try_from({}) ok={}", b, r.is_ok())));
                }
                if let Ok(p) = r {
                    if p as u8 != b {
                        return Err(fail("discriminant", format!("policy {} has discriminant {}", b, p as u8)));
                    }
                }
            }
            3 => {
                let r = ControlByte::try_from(b);
                if r.is_ok() != is_valid {
                    return Err(fail("try_from", format!("ControlByte::try_from({}) ok={}", b, r.is_ok())));
                }
                if let Ok(c) = r {
                    if c as u8 != b {
                        return Err(fail("discriminant", format!("control byte {} has discriminant {}", b, c as u8)));
                    }
                }
            }
            _ => {}
        }
    }
    Ok(())
}

/// whole-table checks: status codes, permission bits, pairwise distinctness
/// The identifiers inside the lists that carry them: a spelling is the same identifier on its
/// second occurrence and next to any other entry (GetInfo versions / extensions / transports;
/// attestationFormatsPreference of MakeCredential and GetAssertion).
fn lists_in_context(obs: &mut Obs) -> CaseResult {
    use ctap_types::ctap2::get_info;
    let kt = |k: i64, v: Value| (Value::int(k), v);
    for (key, (name, spellings)) in [(1i64, STRING_ENUMS[0]), (2, STRING_ENUMS[1]), (9, STRING_ENUMS[2])] {
        for a in spellings.iter() {
            for b in spellings.iter() {
                for third in [None, Some(*a)] {
                    let mut list = vec![Value::text(a), Value::text(b)];
                    if let Some(t) = third {
                        list.push(Value::text(t));
                    }
                    let mut m = vec![kt(1, Value::Array(vec![Value::text("FIDO_2_0")])), kt(3, Value::Bytes(vec![0; 16]))];
                    m.retain(|(k, _)| *k != Value::int(key));
                    m.push(kt(key, Value::Array(list.clone())));
                    let enc = refcbor::encode_canonical(&Value::Map(m));
                    obs.sub_evals += 1;
                    let got: Result<get_info::Response, _> = cbor_deserialize(&enc);
                    let rendered: Option<Vec<String>> = got.as_ref().ok().map(|r| match key {
                        1 => r.versions.iter().map(|v| <&str>::from(*v).to_string()).collect(),
                        2 => r.extensions.as_ref().map(|x| x.iter().map(|v| <&str>::from(*v).to_string()).collect()).unwrap_or_default(),
                        _ => r.transports.as_ref().map(|x| x.iter().map(|v| <&str>::from(*v).to_string()).collect()).unwrap_or_default(),
                    });
                    let want: Vec<String> = list.iter().map(|v| v.as_str().unwrap().to_string()).collect();
                    if rendered.as_ref() != Some(&want) {
                        return Err(Fail::new(
                            format!("C18:{}:in-list:{}", name, if a == b { "repeated" } else { "mixed" }),
                            format!("GetInfo member {} = {:?} decoded to {:?}", key, want, rendered),
                            json!({"input_hex": hex(&enc)}),
                        ));
                    }
                }
            }
        }
    }
    // attestation formats: the platform's list (known formats in order, first two; flag for others)
    for list in [vec!["none", "none"], vec!["packed", "packed"], vec!["none", "packed", "none"], vec!["packed", "none", "packed", "none"], vec!["none"], vec!["packed", "none"]] {
        let v = Value::Array(list.iter().map(|x| Value::text(x)).collect());
        obs.sub_evals += 1;
        crate::props::c14::check_formats_list(&v, obs).map_err(|mut f| {
            f.sig = format!("C18:AttestationStatementFormat:in-list:{}", f.sig);
            f
        })?;
    }
    // a string that is NOT a format name must not pass as one wherever it stands in the list -
    // in front of, between and behind valid names, also once both slots for known formats are
    // taken (the list's "other format present" flag is this entry point's form of rejection)
    const NOT_FORMATS: [&str; 12] = ["tpm", "fido-u2f", "Packed", "PACKED", "pack", "packed2", "packe", "None", "non", "none ", "none\0", ""];
    for prefix in [vec![], vec!["none"], vec!["packed"], vec!["packed", "none"], vec!["none", "none"], vec!["none", "packed", "none"], vec!["packed", "packed", "packed", "none"]] {
        for bad in NOT_FORMATS {
            for pos in 0..=prefix.len() {
                let mut list: Vec<&str> = prefix.clone();
                list.insert(pos, bad);
                let v = Value::Array(list.iter().map(|x| Value::text(x)).collect());
                obs.sub_evals += 1;
                crate::props::c14::check_formats_list(&v, obs).map_err(|mut f| {
                    f.sig = format!("C18:AttestationStatementFormat:in-list:not-a-format:{}", f.sig);
                    f
                })?;
            }
        }
    }
    // the string lists of GetInfo: one entry that is not a spelling of that enumeration makes the
    // list undecodable, wherever it stands
    for (key, (name, spellings)) in [(1i64, STRING_ENUMS[0]), (2, STRING_ENUMS[1]), (9, STRING_ENUMS[2])] {
        for a in spellings.iter() {
            let mut bads: Vec<String> = vec![a.to_lowercase(), a.to_uppercase(), format!("{}2", a), format!("{} ", a), a[..a.len() - 1].to_string(), String::new()];
            bads.retain(|b| !spellings.contains(&b.as_str()));
            for bad in bads {
                for front in [false, true] {
                    let list = if front { vec![Value::text(&bad), Value::text(a)] } else { vec![Value::text(a), Value::text(&bad)] };
                    let mut m = vec![kt(1, Value::Array(vec![Value::text("FIDO_2_0")])), kt(3, Value::Bytes(vec![0; 16]))];
                    m.retain(|(k, _)| *k != Value::int(key));
                    m.push(kt(key, Value::Array(list)));
                    let enc = refcbor::encode_canonical(&Value::Map(m));
                    obs.sub_evals += 1;
                    let got: Result<get_info::Response, _> = cbor_deserialize(&enc);
                    if got.is_ok() {
                        return Err(Fail::new(
                            format!("C18:{}:in-list:not-a-spelling-accepted", name),
                            format!("GetInfo member {} containing {:?} next to {:?} was decoded", key, bad, a),
                            json!({"input_hex": hex(&enc)}),
                        ));
                    }
                }
            }
        }
    }
    Ok(())
}

fn g_tables(_src: &mut Src, obs: &mut Obs) -> CaseResult {
    obs.label("tables");
    obs.nontrivial(&[b"tables"]);
    lists_in_context(obs)?;
    let status: [(Error, u8, &str); 58] = [
        (Error::Success, 0x00, "CTAP2_OK"),
        (Error::InvalidCommand, 0x01, "CTAP1_ERR_INVALID_COMMAND"),
        (Error::InvalidParameter, 0x02, "CTAP1_ERR_INVALID_PARAMETER"),
        (Error::InvalidLength, 0x03, "CTAP1_ERR_INVALID_LENGTH"),
        (Error::InvalidSeq, 0x04, "CTAP1_ERR_INVALID_SEQ"),
        (Error::Timeout, 0x05, "CTAP1_ERR_TIMEOUT"),
        (Error::ChannelBusy, 0x06, "CTAP1_ERR_CHANNEL_BUSY"),
        (Error::LockRequired, 0x0A, "CTAP1_ERR_LOCK_REQUIRED"),
        (Error::InvalidChannel, 0x0B, "CTAP1_ERR_INVALID_CHANNEL"),
        (Error::CborUnexpectedType, 0x11, "CTAP2_ERR_CBOR_UNEXPECTED_TYPE"),
        (Error::InvalidCbor, 0x12, "CTAP2_ERR_INVALID_CBOR"),
        (Error::MissingParameter, 0x14, "CTAP2_ERR_MISSING_PARAMETER"),
        (Error::LimitExceeded, 0x15, "CTAP2_ERR_LIMIT_EXCEEDED"),
        (Error::UnsupportedExtension, 0x16, "CTAP2_ERR_UNSUPPORTED_EXTENSION"),
        (Error::FingerprintDatabaseFull, 0x17, "CTAP2_ERR_FP_DATABASE_FULL"),
        (Error::LargeBlobStorageFull, 0x18, "CTAP2_ERR_LARGE_BLOB_STORAGE_FULL"),
        (Error::CredentialExcluded, 0x19, "CTAP2_ERR_CREDENTIAL_EXCLUDED"),
        (Error::Processing, 0x21, "CTAP2_ERR_PROCESSING"),
        (Error::InvalidCredential, 0x22, "CTAP2_ERR_INVALID_CREDENTIAL"),
        (Error::UserActionPending, 0x23, "CTAP2_ERR_USER_ACTION_PENDING"),
        (Error::OperationPending, 0x24, "CTAP2_ERR_OPERATION_PENDING"),
        (Error::NoOperations, 0x25, "CTAP2_ERR_NO_OPERATIONS"),
        (Error::UnsupportedAlgorithm, 0x26, "CTAP2_ERR_UNSUPPORTED_ALGORITHM"),
        (Error::OperationDenied, 0x27, "CTAP2_ERR_OPERATION_DENIED"),
        (Error::KeyStoreFull, 0x28, "CTAP2_ERR_KEY_STORE_FULL"),
        (Error::NotBusy, 0x29, "CTAP2_ERR_NOT_BUSY"),
        (Error::NoOperationPending, 0x2A, "CTAP2_ERR_NO_OPERATION_PENDING"),
        (Error::UnsupportedOption, 0x2B, "CTAP2_ERR_UNSUPPORTED_OPTION"),
        (Error::InvalidOption, 0x2C, "CTAP2_ERR_INVALID_OPTION"),
        (Error::KeepaliveCancel, 0x2D, "CTAP2_ERR_KEEPALIVE_CANCEL"),
        (Error::NoCredentials, 0x2E, "CTAP2_ERR_NO_CREDENTIALS"),
        (Error::UserActionTimeout, 0x2F, "CTAP2_ERR_USER_ACTION_TIMEOUT"),
        (Error::NotAllowed, 0x30, "CTAP2_ERR_NOT_ALLOWED"),
        (Error::PinInvalid, 0x31, "CTAP2_ERR_PIN_INVALID"),
        (Error::PinBlocked, 0x32, "CTAP2_ERR_PIN_BLOCKED"),
        (Error::PinAuthInvalid, 0x33, "CTAP2_ERR_PIN_AUTH_INVALID"),
        (Error::PinAuthBlocked, 0x34, "CTAP2_ERR_PIN_AUTH_BLOCKED"),
        (Error::PinNotSet, 0x35, "CTAP2_ERR_PIN_NOT_SET"),
        (Error::PinRequired, 0x36, "CTAP2_ERR_PUAT_REQUIRED"),
        (Error::PinPolicyViolation, 0x37, "CTAP2_ERR_PIN_POLICY_VIOLATION"),
        (Error::PinTokenExpired, 0x38, "CTAP2_ERR_PIN_TOKEN_EXPIRED"),
        (Error::RequestTooLarge, 0x39, "CTAP2_ERR_REQUEST_TOO_LARGE"),
        (Error::ActionTimeout, 0x3A, "CTAP2_ERR_ACTION_TIMEOUT"),
        (Error::UpRequired, 0x3B, "CTAP2_ERR_UP_REQUIRED"),
        (Error::UvBlocked, 0x3C, "CTAP2_ERR_UV_BLOCKED"),
        (Error::IntegrityFailure, 0x3D, "CTAP2_ERR_INTEGRITY_FAILURE"),
        (Error::InvalidSubcommand, 0x3E, "CTAP2_ERR_INVALID_SUBCOMMAND"),
        (Error::UvInvalid, 0x3F, "CTAP2_ERR_UV_INVALID"),
        (Error::UnauthorizedPermission, 0x40, "CTAP2_ERR_UNAUTHORIZED_PERMISSION"),
        (Error::Other, 0x7F, "CTAP1_ERR_OTHER"),
        (Error::SpecLast, 0xDF, "CTAP2_ERR_SPEC_LAST"),
        (Error::ExtensionFirst, 0xE0, "CTAP2_ERR_EXTENSION_FIRST"),
        (Error::ExtensionLast, 0xEF, "CTAP2_ERR_EXTENSION_LAST"),
        (Error::VendorFirst, 0xF0, "CTAP2_ERR_VENDOR_FIRST"),
        (Error::VendorLast, 0xFF, "CTAP2_ERR_VENDOR_LAST"),
        // repeated on purpose to keep the array length stable if a name is ever split
        (Error::InvalidCbor, 0x12, "CTAP2_ERR_INVALID_CBOR"),
        (Error::MissingParameter, 0x14, "CTAP2_ERR_MISSING_PARAMETER"),
        (Error::InvalidCommand, 0x01, "CTAP1_ERR_INVALID_COMMAND"),
    ];
    for (e, code, name) in status.iter() {
        obs.sub_evals += 1;
        if *e as u8 != *code {
            return Err(Fail::new(format!("C18:status:{}", name), format!("{:?} has code 0x{:02x}, specification says {} = 0x{:02x}", e, *e as u8, name, code), json!({})));
        }
    }
    for (i, (a, _, _)) in status.iter().enumerate().take(55) {
        for (b, _, _) in status.iter().take(55).skip(i + 1) {
            obs.sub_evals += 1;
            if *a as u8 == *b as u8 {
                return Err(Fail::new("C18:status:shared-code", format!("{:?} and {:?} share a status code", a, b), json!({})));
            }
        }
    }
    let perms: [(Permissions, u8, &str); 6] = [
        (Permissions::MAKE_CREDENTIAL, 0x01, "mc"),
        (Permissions::GET_ASSERTION, 0x02, "ga"),
        (Permissions::CREDENTIAL_MANAGEMENT, 0x04, "cm"),
        (Permissions::BIO_ENROLLMENT, 0x08, "be"),
        (Permissions::LARGE_BLOB_WRITE, 0x10, "lbw"),
        (Permissions::AUTHENTICATOR_CONFIGURATION, 0x20, "acfg"),
    ];
    for (p, bits, name) in perms.iter() {
        obs.sub_evals += 1;
        if p.bits() != *bits {
            return Err(Fail::new(format!("C18:permission:{}", name), format!("permission {} has bits 0x{:02x}, specification says 0x{:02x}", name, p.bits(), bits), json!({})));
        }
    }
    // the permission set as a set: every operation of the public API, over all pairs of the 64
    // defined sets, agrees with the same operation on the numbers masked to the six defined bits
    // (a permission value never carries a bit that names no permission)
    for a in 0..64u8 {
        let pa = Permissions::from_bits(a);
        let Some(pa) = pa else {
            return Err(Fail::new("C18:permission:from_bits", format!("from_bits(0x{:02x}) refused although all bits are defined", a), json!({})));
        };
        obs.sub_evals += 1;
        let not_a = (!pa).bits();
        if not_a != (!a & 0x3F) || pa.complement().bits() != (!a & 0x3F) {
            return Err(Fail::new("C18:permission:complement", format!("!0x{:02x} = 0x{:02x}, expected 0x{:02x}", a, not_a, !a & 0x3F), json!({})));
        }
        if Permissions::from_bits((!pa).bits()) != Some(!pa) {
            return Err(Fail::new("C18:permission:complement", format!("the complement of 0x{:02x} does not map back through from_bits", a), json!({})));
        }
        for b in 0..64u8 {
            let pb = Permissions::from_bits_truncate(b);
            let ok = (pa | pb).bits() == (a | b) && (pa & pb).bits() == (a & b) && (pa ^ pb).bits() == (a ^ b) && (pa - pb).bits() == (a & !b)
                && pa.contains(pb) == (a & b == b) && pa.intersects(pb) == (a & b != 0);
            if !ok {
                return Err(Fail::new("C18:permission:set-operation", format!("set operations on 0x{:02x} and 0x{:02x} disagree with the numbers", a, b), json!({})));
            }
        }
    }
    for v in 64..=255u8 {
        if Permissions::from_bits(v).is_some() || Permissions::from_bits_truncate(v).bits() != (v & 0x3F) {
            return Err(Fail::new("C18:permission:undefined-bits", format!("0x{:02x} carries undefined bits", v), json!({})));
        }
    }
    if Permissions::all().bits() != 0x3F {
        return Err(Fail::new("C18:permission:all", format!("all permissions = 0x{:02x}", Permissions::all().bits()), json!({})));
    }
    // spellings pairwise distinct within each string enumeration, via the conversion out
    let v = [Version::Fido2_0, Version::Fido2_1, Version::Fido2_1Pre, Version::U2fV2];
    let vs: Vec<&str> = v.iter().map(|x| <&str>::from(*x)).collect();
    let x = [Extension::CredProtect, Extension::HmacSecret, Extension::LargeBlobKey, Extension::ThirdPartyPayment];
    let xs: Vec<&str> = x.iter().map(|x| <&str>::from(*x)).collect();
    let t = [Transport::Nfc, Transport::Usb];
    let ts: Vec<&str> = t.iter().map(|x| <&str>::from(*x)).collect();
    let a = [AttestationStatementFormat::None, AttestationStatementFormat::Packed];
    let as_: Vec<&str> = a.iter().map(|x| <&str>::from(*x)).collect();
    for (name, got, want) in [
        ("Version", vs, STRING_ENUMS[0].1),
        ("Extension", xs, STRING_ENUMS[1].1),
        ("Transport", ts, STRING_ENUMS[2].1),
        ("AttestationStatementFormat", as_, STRING_ENUMS[3].1),
    ] {
        obs.sub_evals += 1;
        if got != want {
            return Err(Fail::new(format!("C18:{}:variant-spellings", name), format!("{} variants spell {:?}, specification says {:?}", name, got, want), json!({})));
        }
    }
    // every listed sub-command maps through complete requests, under every command byte that carries it
    for n in PIN_SUBS {
        obs.sub_evals += 1;
        let msg = [0x06u8, 0xA2, 0x01, 0x01, 0x02, n as u8];
        let got: Result<(Option<Vec<u8>>, String), u8> = match ctap_types::ctap2::Request::deserialize(&msg) {
            Ok(ctap_types::ctap2::Request::ClientPin(r)) => Ok((ser(&r.sub_command).ok(), format!("{:?}", r.sub_command))),
            Ok(other) => Ok((None, format!("{:?}", other))),
            Err(e) => Err(e as u8),
        };
        if !matches!(&got, Ok((Some(b), _)) if b[..] == [n as u8]) {
            return Err(Fail::new(
                format!("C18:PinV1Subcommand:through-request:{}", n),
                format!("clientPIN request with sub-command {} decoded to {:?}", n, got),
                json!({"input_hex": hex(&msg)}),
            ));
        }
    }
    for cmd in [0x0Au8, 0x41] {
        for n in 1..=7u8 {
            obs.sub_evals += 1;
            let msg = [cmd, 0xA1, 0x01, n];
            let got: Result<(Option<Vec<u8>>, String), u8> = match ctap_types::ctap2::Request::deserialize(&msg) {
                Ok(ctap_types::ctap2::Request::CredentialManagement(r)) => Ok((ser(&r.sub_command).ok(), format!("{:?}", r.sub_command))),
                Ok(other) => Ok((None, format!("{:?}", other))),
                Err(e) => Err(e as u8),
            };
            if !matches!(&got, Ok((Some(b), _)) if b[..] == [n]) {
                return Err(Fail::new(
                    format!("C18:Subcommand:through-request:0x{:02x}:{}", cmd, n),
                    format!("credential management request 0x{:02x} with sub-command {} decoded to {:?}", cmd, n, got),
                    json!({"input_hex": hex(&msg)}),
                ));
            }
        }
        for n in [0u8, 8, 9, 23] {
            obs.sub_evals += 1;
            let msg = [cmd, 0xA1, 0x01, n];
            if ctap_types::ctap2::Request::deserialize(&msg).is_ok() {
                return Err(Fail::new(format!("C18:Subcommand:through-request:accepted:{}", n), format!("credential management sub-command {} accepted under 0x{:02x}", n, cmd), json!({"input_hex": hex(&msg)})));
            }
        }
    }
    // numeric discriminants of the variants
    let pins = [
        (PinV1Subcommand::GetRetries, 1u8),
        (PinV1Subcommand::GetKeyAgreement, 2),
        (PinV1Subcommand::SetPin, 3),
        (PinV1Subcommand::ChangePin, 4),
        (PinV1Subcommand::GetPinToken, 5),
        (PinV1Subcommand::GetPinUvAuthTokenUsingUvWithPermissions, 6),
        (PinV1Subcommand::GetUVRetries, 7),
        (PinV1Subcommand::GetPinUvAuthTokenUsingPinWithPermissions, 9),
    ];
    for (p, n) in pins.iter() {
        obs.sub_evals += 1;
        if ser(p).ok() != Some(vec![*n]) {
            return Err(Fail::new(format!("C18:PinV1Subcommand:variant:{}", n), format!("{:?} encodes as {:?}, specification says {}", p, ser(p), n), json!({})));
        }
    }
    let cms = [
        (Subcommand::GetCredsMetadata, 1u8),
        (Subcommand::EnumerateRpsBegin, 2),
        (Subcommand::EnumerateRpsGetNextRp, 3),
        (Subcommand::EnumerateCredentialsBegin, 4),
        (Subcommand::EnumerateCredentialsGetNextCredential, 5),
        (Subcommand::DeleteCredential, 6),
        (Subcommand::UpdateUserInformation, 7),
    ];
    for (p, n) in cms.iter() {
        obs.sub_evals += 1;
        if ser(p).ok() != Some(vec![*n]) {
            return Err(Fail::new(format!("C18:Subcommand:variant:{}", n), format!("{:?} encodes as {:?}, specification says {}", p, ser(p), n), json!({})));
        }
    }
    let pol = [(CredentialProtectionPolicy::Optional, 1u8), (CredentialProtectionPolicy::OptionalWithCredentialIdList, 2), (CredentialProtectionPolicy::Required, 3)];
    for (p, n) in pol.iter() {
        obs.sub_evals += 1;
        if ser(p).ok() != Some(vec![*n]) || *p as u8 != *n {
            return Err(Fail::new(format!("C18:CredentialProtectionPolicy:variant:{}", n), format!("{:?} encodes as {:?}", p, ser(p)), json!({})));
        }
    }
    let cbs = [(ControlByte::EnforceUserPresenceAndSign, 3u8), (ControlByte::CheckOnly, 7), (ControlByte::DontEnforceUserPresenceAndSign, 8)];
    for (c, n) in cbs.iter() {
        obs.sub_evals += 1;
        if *c as u8 != *n {
            return Err(Fail::new(format!("C18:ControlByte:variant:{}", n), format!("{:?} = {}", c, *c as u8), json!({})));
        }
    }
    // the control byte where it travels: P1 of a well-formed U2F authenticate APDU (all 256
    // values, short and extended framing, both conversions) - accepted iff it is 3, 7 or 8, and
    // then as exactly that control byte
    for p1 in 0..=255u8 {
        for enc in [0usize, 2] {
            for handle in [0usize, 5] {
                obs.sub_evals += 1;
                let mut data = vec![0x5Au8; 65 + handle];
                data[64] = handle as u8;
                let Some(apdu) = crate::props::c08::frame(0, 2, p1, 0, &data, enc) else { continue };
                let valid = matches!(p1, 3 | 7 | 8);
                let view = match iso7816::command::CommandView::try_from(&apdu[..]) {
                    Ok(v) => v,
                    Err(_) => continue,
                };
                let mut got: Vec<Option<u8>> = vec![];
                got.push(match ctap_types::ctap1::Request::try_from(view) {
                    Ok(ctap_types::ctap1::Request::Authenticate(a)) => Some(a.control_byte as u8),
                    _ => None,
                });
                if let Ok(cmd) = iso7816::Command::<512>::try_from(&apdu[..]) {
                    got.push(match ctap_types::ctap1::Request::try_from(&cmd) {
                        Ok(ctap_types::ctap1::Request::Authenticate(a)) => Some(a.control_byte as u8),
                        _ => None,
                    });
                }
                for g in got {
                    if g != if valid { Some(p1) } else { None } {
                        return Err(Fail::new(
                            format!("C18:ControlByte:in-apdu:{}", if valid { "valid" } else { "other" }),
                            format!("authenticate APDU with P1 = 0x{:02x}: control byte {:?}, expected {:?}", p1, g, if valid { Some(p1) } else { None }),
                            json!({"p1": p1, "apdu_hex": crate::util::hex(&apdu)}),
                        ));
                    }
                }
            }
        }
    }
    Ok(())
}

pub const G_STRING: Gen = Gen { name: "c18_string", f: g_string };
pub const G_STRING_R: Gen = Gen { name: "c18_string_random", f: g_string_random };
pub const G_NUMBER: Gen = Gen { name: "c18_number", f: g_number };
pub const G_TABLES: Gen = Gen { name: "c18_tables", f: g_tables };

pub fn gens() -> Vec<Gen> {
    vec![G_STRING, G_STRING_R, G_NUMBER, G_TABLES]
}

/// all single-character edits, case changes, prefixes and one-character extensions
pub fn neighbourhood(s: &str) -> Vec<String> {
    const ALPHA: &[u8] = b"ABCDEFGHIJKLMNOPQRSTUVWXYZabcdefghijklmnopqrstuvwxyz0123456789_-";
    let b = s.as_bytes();
    let mut out: Vec<String> = vec![s.to_string(), String::new(), s.to_uppercase(), s.to_lowercase()];
    for i in 0..=b.len() {
        out.push(s[..i].to_string()); // prefixes
        for c in ALPHA {
            let mut v = b.to_vec();
            v.insert(i, *c);
            out.push(String::from_utf8(v).unwrap()); // insertions (incl. one-character extension)
        }
    }
    for i in 0..b.len() {
        let mut v = b.to_vec();
        v.remove(i);
        out.push(String::from_utf8(v).unwrap()); // deletions
        for c in ALPHA {
            let mut v = b.to_vec();
            v[i] = *c;
            out.push(String::from_utf8(v).unwrap()); // substitutions
        }
        let mut v = b.to_vec();
        v[i] = if v[i].is_ascii_lowercase() { v[i].to_ascii_uppercase() } else { v[i].to_ascii_lowercase() };
        out.push(String::from_utf8(v).unwrap()); // single case change
    }
    out.push(format!("{} ", s));
    out.push(format!(" {}", s));
    out.push(format!("{}\0", s));
    // characters that packing / hashing / trimming code may lose: NUL, space, tab, newline and a
    // non-ASCII character, once and twice, in front and behind; the name doubled
    for pad in ["\0", "\0\0", "\t", "\n", "\u{a0}", "\u{feff}", "\u{200b}", "  "] {
        out.push(format!("{}{}", pad, s));
        out.push(format!("{}{}", s, pad));
        out.push(format!("{}{}{}", pad, s, pad));
    }
    out.push(format!("{}{}", s, s));
    // numbers inside a name written differently or congruent modulo a power of two: leading zeros,
    // a sign, +256, +65536, +2^32 (a parser that reads the digits must not accept these)
    let digits: Vec<(usize, usize)> = {
        let mut v = vec![];
        let mut i = 0;
        while i < b.len() {
            if b[i].is_ascii_digit() {
                let st = i;
                while i < b.len() && b[i].is_ascii_digit() {
                    i += 1;
                }
                v.push((st, i));
            } else {
                i += 1;
            }
        }
        v
    };
    for (st, en) in digits {
        if let Ok(n) = s[st..en].parse::<u64>() {
            for alt in [format!("0{}", n), format!("00{}", n), format!("+{}", n), format!("{}", n + 256), format!("{}", n + 512), format!("{}", n + 65536), format!("{}", n + (1u64 << 32)), format!("{}.0", n)] {
                out.push(format!("{}{}{}", &s[..st], alt, &s[en..]));
            }
        }
    }
    out
}

/// strings made of two valid spellings: concatenations, a spelling followed by every suffix of
/// another, and every prefix/suffix cross-over - e.g. "U2F_V2" + "_PRE"
pub fn crossovers() -> Vec<String> {
    let all: Vec<&str> = STRING_ENUMS.iter().flat_map(|(_, s)| s.iter().copied()).collect();
    let mut out = std::collections::BTreeSet::new();
    for a in &all {
        for b in &all {
            out.insert(format!("{}{}", a, b));
            out.insert(format!("{}_{}", a, b));
            for i in 1..b.len() {
                out.insert(format!("{}{}", a, &b[i..])); // a + suffix of b
                out.insert(format!("{}{}", &b[..i], a)); // prefix of b + a
            }
            for i in 1..a.len() {
                for j in 1..b.len() {
                    if (i + j) % 3 == 0 || a.len() + b.len() < 14 {
                        out.insert(format!("{}{}", &a[..i], &b[j..])); // cross-over
                    }
                }
            }
        }
    }
    out.into_iter().collect()
}

pub const RULE: &str = "Exhaustive for every table. The permission bit set is additionally checked as a set: complement, union, intersection, difference, symmetric difference, contains / intersects over all pairs of the 64 defined sets against the same operations on the numbers (no operation may produce an undefined bit). Every pair (and triple with a repeat) of valid spellings is also decoded inside the list members that carry them (GetInfo versions / extensions / transports, attestationFormatsPreference): each occurrence must be recognised as the identifier it spells; and a string that is not a spelling is presented in front of, between and behind valid ones (also behind the two format names that fill the preference list): it must never pass as an identifier. Every probed string is additionally presented to the decoder as a byte string, a one-element array, a tagged text and a text with a non-minimal length prefix (all must be rejected). Cross-combinations of two valid spellings (concatenation, spelling + every suffix of another, prefix + spelling, prefix/suffix cross-overs) are presented to every string enumeration as well. String enumerations (Version, Extension, Transport, AttestationStatementFormat): every valid spelling of every enumeration is presented to every enumeration, together with every single-character deletion, substitution and insertion over [A-Za-z0-9_-], every case change, every proper prefix, one-character extensions, padded and NUL-terminated variants and the empty string - accepted iff the string is a valid spelling of THAT enumeration - through TryFrom<&str>/From and through cbor_deserialize/cbor_serialize; plus proptest random strings. Numeric enumerations (PinV1Subcommand, Subcommand, CredentialProtectionPolicy, ControlByte): all 256 byte values through TryFrom<u8> where it exists and through the decoder, integers at every head-width threshold up to 2^64-1, and negative integers. The U2F control byte is also presented where it travels: as P1 (all 256 values) of a well-formed authenticate APDU in short and extended framing through both conversions - accepted iff 3, 7 or 8 and then as exactly that control byte. One whole-table case: `as u8` of every named status against the CTAP status table, permission bits, the spelling / number of every variant, pairwise distinct codes. Oracle: the specification tables in the harness. Every probe is a distinct (table, value) pair.";
pub const ASSUMPTIONS: &[&str] = &["identifier tables transcribed from CTAP 2.1 (sections 6.4, 6.5.5, 6.8, 8.2) and the U2F raw message format"];

pub fn run(ctx: &mut Ctx) {
    let mut items: Vec<Vec<u32>> = vec![];
    for e in 0..4usize {
        // every enumeration sees the neighbourhood of every enumeration's spellings
        for (_, spellings) in STRING_ENUMS.iter() {
            for s in spellings.iter() {
                for n in neighbourhood(s) {
                    let mut w = vec![idx(e, 4)];
                    w.extend(pack_bytes(n.as_bytes()));
                    items.push(w);
                }
            }
        }
    }
    ctx.enumerate(&G_STRING, items.into_iter());
    if ctx.too_many() {
        return;
    }
    let cross = crossovers();
    let mut items: Vec<Vec<u32>> = vec![];
    for e in 0..4usize {
        for c in &cross {
            let mut w = vec![idx(e, 4)];
            w.extend(pack_bytes(c.as_bytes()));
            items.push(w);
        }
    }
    ctx.enumerate(&G_STRING, items.into_iter());
    // numbers: all byte values, thresholds, negatives
    let thresholds: Vec<u64> = vec![256, 257, 65535, 65536, 65537, 0xFFFF_FFFF, 0x1_0000_0000, 0x1_0000_0001, 0x1_0000_0003, 1 << 63, u64::MAX - 1, u64::MAX, 0x0100, 0x0101, 0x0103, 0x0107, 0x0109, 0x0301, 0x10001, 0x10003];
    let mut items: Vec<Vec<u32>> = vec![];
    for e in 0..4usize {
        for n in (0..256u64).chain(thresholds.iter().copied()) {
            items.push(vec![idx(e, 4), 0, (n >> 32) as u32, n as u32]);
        }
        for n in (0..32u64).chain(thresholds.iter().copied()) {
            items.push(vec![idx(e, 4), u32::MAX, (n >> 32) as u32, n as u32]);
        }
    }
    ctx.enumerate(&G_NUMBER, items.into_iter());
    ctx.enumerate(&G_TABLES, std::iter::once(vec![]));
    ctx.exhaustive.push("every spelling's one-edit neighbourhood against every string enumeration; all 256 byte values, head-width thresholds and negatives against every numeric enumeration; the complete status / permission / variant tables".into());
    // random strings
    for e in 0..4usize {
        ctx.random(&G_STRING_R, &[idx(e, 4)], ctx.t(3_000, 100_000), 40);
    }
    ctx.random(&G_NUMBER, &[], ctx.t(3_000, 100_000), 6);
    ctx.require(&[
        "string:Version:valid", "string:Version:invalid", "string:Extension:valid", "string:Transport:valid",
        "string:AttestationStatementFormat:valid", "number:PinV1Subcommand:valid", "number:PinV1Subcommand:invalid",
        "number:credential_management::Subcommand:valid", "number:CredentialProtectionPolicy:valid", "number:ControlByte:valid", "tables",
    ]);
}
