//! C12 — size and range limits are exact; accepted values are never altered to fit.

use crate::mutate::{self, Step};
use crate::props::{c01, c04};
use crate::refcbor::{self, Value};
use crate::reqmodel::*;
use crate::run::{bit, idx, CaseResult, Ctx, Fail, Gen, Obs};
use crate::util::{hex, text_of_len, Src};
use serde_json::json;

#[derive(Clone, Debug)]
enum Probe {
    Len(usize),
    Uint(u64),
    Int(i128),
}

fn probes(kind: BoundKind) -> Vec<(Probe, bool /*accepted*/, &'static str)> {
    match kind {
        BoundKind::BytesLen(c) | BoundKind::TextLen(c) => vec![
            (Probe::Len(c - 1), true, "cap-1"),
            (Probe::Len(c), true, "cap"),
            (Probe::Len(c + 1), false, "cap+1"),
            (Probe::Len((c * 4 + 100).min(5000)), false, "far-beyond"),
            (Probe::Len(0), true, "empty"),
        ],
        BoundKind::ListLen(c) => vec![
            (Probe::Len(c - 1), true, "cap-1"),
            (Probe::Len(c), true, "cap"),
            (Probe::Len(c + 1), false, "cap+1"),
            (Probe::Len(c * 2 + 8), false, "far-beyond"),
        ],
        BoundKind::BytesExact(c) => vec![
            (Probe::Len(c - 1), false, "exact-1"),
            (Probe::Len(c), true, "exact"),
            (Probe::Len(c + 1), false, "exact+1"),
            (Probe::Len(0), false, "empty"),
            (Probe::Len(c * 4), false, "far-beyond"),
        ],
        BoundKind::UintMax(m) => vec![
            (Probe::Uint(0), true, "0"),
            (Probe::Uint(m - 1), true, "max-1"),
            (Probe::Uint(m), true, "max"),
            (Probe::Uint(m + 1), false, "max+1"),
            (Probe::Uint(1 << 32), m >= (1 << 32), "2^32"),
            (Probe::Uint(1 << 63), false, "2^63"),
            (Probe::Uint(u64::MAX), false, "2^64-1"),
        ],
        BoundKind::I32 => vec![
            (Probe::Int(0), true, "0"),
            (Probe::Int(-1), true, "-1"),
            (Probe::Int(i32::MAX as i128 - 1), true, "max-1"),
            (Probe::Int(i32::MAX as i128), true, "max"),
            (Probe::Int(i32::MAX as i128 + 1), false, "max+1"),
            (Probe::Int(1 << 32), false, "2^32"),
            (Probe::Int(1 << 63), false, "2^63"),
            (Probe::Int(i32::MIN as i128 + 1), true, "min+1"),
            (Probe::Int(i32::MIN as i128), true, "min"),
            (Probe::Int(i32::MIN as i128 - 1), false, "min-1"),
            (Probe::Int(-(1i128 << 32)), false, "-2^32"),
            (Probe::Int(-(1i128 << 63)), false, "-2^63"),
        ],
    }
}

/// words: [bound index, probe index, values...]
fn g_bound(src: &mut Src, obs: &mut Obs) -> CaseResult {
    let bs = bounds();
    let b = bs[src.below(bs.len())].clone();
    let ps = probes(b.kind);
    let (probe, accepted, pname) = ps[src.below(ps.len())].clone();
    // an otherwise valid message with every optional member present (so that the path exists)
    let nbits = top_bits(b.cmd) + nested_bits(b.cmd);
    let mut words: Vec<u32> = vec![bit(true); nbits];
    if b.cmd == CMD_MC {
        // rp icon-kind is a three-way word: keep it absent so that the message stays lossless there
        words[MC_TOP + 1] = 0;
    }
    let tail: Vec<u32> = (0..600).map(|_| src.word()).collect();
    words.extend_from_slice(&tail);
    let mut info = Info { lossless: true, ..Info::default() };
    let mut model = {
        let mut s2 = Src::new(&words);
        gen_for(b.cmd, &mut s2, &mut info)
    };
    // make sure list hosts have the probed element; entries in front of it are the two known
    // algorithms (so that the filtered list is already full when the probed entry is reached)
    if let Some(Step::Index(k)) = b.path.get(1) {
        if let Some(Value::Array(a)) = mutate::get_mut(&mut model, &b.path[..1]) {
            let entry = |alg: i64| Value::Map(vec![(Value::text("alg"), Value::int(alg)), (Value::text("type"), Value::text("public-key"))]);
            if *k > 0 {
                a.clear();
                for i in 0..*k {
                    a.push(entry(if i % 2 == 0 { -7 } else { -8 }));
                }
            }
            while a.len() <= *k {
                a.push(entry(-7));
            }
        }
    }
    let new = match (&probe, b.kind) {
        (Probe::Len(n), BoundKind::BytesLen(_)) | (Probe::Len(n), BoundKind::BytesExact(_)) => Value::Bytes(src.bytes(*n)),
        (Probe::Len(n), BoundKind::TextLen(_)) => Value::Text(text_of_len(src, *n).into_bytes()),
        (Probe::Len(n), BoundKind::ListLen(_)) => {
            let mut i2 = Info::default();
            Value::Array(
                (0..*n)
                    .map(|j| {
                        // distinct, short descriptors so that even 'far beyond' fits the message budget
                        let mut d = gen_descriptor(src, &mut i2);
                        if let Some(Value::Map(m)) = Some(&mut d) {
                            m[0].1 = Value::Bytes(vec![j as u8, src.byte(), src.byte()]);
                            m[1].1 = Value::text("public-key");
                        }
                        d
                    })
                    .collect(),
            )
        }
        (Probe::Uint(u), _) => Value::Uint(*u),
        (Probe::Int(i), _) => {
            if *i >= 0 {
                Value::Uint(*i as u64)
            } else {
                Value::Nint((-1 - *i) as u64)
            }
        }
        _ => Value::Null,
    };
    match mutate::get_mut(&mut model, &b.path) {
        Some(slot) => *slot = new.clone(),
        None => {
            return Err(Fail::new(
                "C12:harness:path-missing",
                format!("model lacks {} in {}", b.name, cmd_name(b.cmd)),
                json!({"model": refcbor::diag(&model)}),
            ))
        }
    }
    // list-element members: vary the OTHER member of the probed entry and the order in which the
    // entry's members are encoded (a limit must not depend on either)
    let mut type_first = false;
    if b.path.len() == 3 && matches!(b.path.get(1), Some(Step::Index(_))) && b.cmd == CMD_MC && b.name.starts_with("pubKeyCredParams") {
        let variant = src.below(4);
        let is_alg = b.name.ends_with(".alg");
        if variant == 1 || variant == 3 {
            let sibling = if is_alg { Value::text(*src.pick(&["private-key", "public-key2", "", "x"])) } else { Value::int(*src.pick(&[-257i64, 0, -9, 1])) };
            let mut sp = b.path.clone();
            sp[2] = Step::Key(Value::text(if is_alg { "type" } else { "alg" }));
            if let Some(slot) = mutate::get_mut(&mut model, &sp) {
                *slot = sibling;
            }
            obs.label("element-variant:sibling-unknown");
        }
        if variant >= 2 {
            type_first = true;
            obs.label("element-variant:type-first-order");
        }
    }
    let msg = if type_first {
        let mut m = refcbor::canonicalize(&model);
        if let Some(Value::Map(e)) = mutate::get_mut(&mut m, &b.path[..2]) {
            e.reverse();
        }
        let mut out = vec![b.cmd];
        out.extend_from_slice(&refcbor::encode(&m));
        out
    } else {
        message(b.cmd, &model)
    };
    obs.labelf(format!("member:{}:{}", cmd_name(b.cmd), b.name));
    obs.labelf(format!("probe:{}", pname));
    obs.nontrivial(&[&msg]);
    obs.case_with(|| json!({"member": b.name, "command": cmd_name(b.cmd), "probe": pname, "input_hex": hex(&msg)}));
    obs.sample_with(|| json!({"member": b.name, "command": cmd_name(b.cmd), "probe": pname, "value": refcbor::show(&new), "message_len": msg.len(),
        "expect": if accepted || b.lossy_drop {"accepted"} else {"0x12"}}));
    let case = || json!({"member": b.name, "command": cmd_name(b.cmd), "probe": pname, "value": refcbor::show(&new), "input_hex": hex(&msg)});
    if (accepted || b.lossy_drop) && type_first && c04::status_of(&msg).is_some() {
        // a decoder may insist on canonical member order; only what it accepts is judged
        obs.label("element-variant:type-first-order:rejected");
        return Ok(());
    }
    if accepted || b.lossy_drop {
        // accepted (or documented lossy drop): Ok, and every member - this one included - delivered whole
        c01::check_message(b.cmd, &model, &msg).map_err(|(_, m)| {
            Fail::new(
                format!("C12:{}:{}:{}:not-delivered-whole", cmd_name(b.cmd), b.name, pname),
                format!("{} = {} ({}) should be accepted and delivered unchanged: {}", b.name, refcbor::show(&new), pname, m),
                case(),
            )
            .with_concrete("c12_concrete", { let mut p = vec![1u8]; p.extend_from_slice(&msg); p })
        })
    } else {
        match c04::status_of(&msg) {
            Some(0x12) => Ok(()),
            other => Err(Fail::new(
                format!("C12:{}:{}:{}:not-rejected", cmd_name(b.cmd), b.name, pname),
                format!(
                    "{} = {} ({}) is beyond the limit and must give 0x12, got {}",
                    b.name,
                    refcbor::show(&new),
                    pname,
                    other.map(|s| format!("0x{:02x}", s)).unwrap_or("accepted".into())
                ),
                case(),
            )
            .with_concrete("c12_concrete", { let mut p = vec![0u8]; p.extend_from_slice(&msg); p })),
        }
    }
}

/// replay: payload = [1 = must be accepted & delivered whole | 0 = must be rejected 0x12] || message
fn g_concrete(src: &mut Src, obs: &mut Obs) -> CaseResult {
    let p = crate::run::unpack_bytes(src);
    obs.label("concrete");
    if p.len() < 2 {
        return Ok(());
    }
    let msg = &p[1..];
    obs.case_with(|| json!({"input_hex": hex(msg)}));
    if p[0] == 1 {
        let model = refcbor::parse_strict(&msg[1..]).map_err(|e| Fail::new("C12:harness:concrete", e.0, json!({})))?;
        c01::check_message(msg[0], &model, msg).map_err(|(s, m)| Fail::new(format!("C12:concrete:{}", s), m, json!({"input_hex": hex(msg)})))
    } else {
        match c04::status_of(msg) {
            Some(0x12) => Ok(()),
            o => Err(Fail::new("C12:concrete:not-rejected", format!("expected 0x12 got {:?}", o), json!({"input_hex": hex(msg)}))),
        }
    }
}

pub const G_BOUND: Gen = Gen { name: "c12_bound", f: g_bound };
pub const G_CONCRETE: Gen = Gen { name: "c12_concrete", f: g_concrete };

pub fn gens() -> Vec<Gen> {
    vec![G_BOUND, G_CONCRETE]
}

pub const RULE: &str = "The limit table of the statement (user id 64, rp id 256, user icon 128 lossy, parameter type 32, allow list 10, exclude list 16, hmac-secret salt 80 / salt auth 32, COSE x/y 32, rpIdHash exactly 32, u8 and u32 integer members, alg in i32) located in every command that carries the member. Exhaustive over (member, probe point): lengths/counts cap-1, cap, cap+1, far beyond, empty; integers 0, max-1, max, max+1, 2^32, 2^63, 2^64-1 and the negative counterparts for alg; each probe embedded in an otherwise valid message with every optional member present and random contents (proptest); list-element members (pubKeyCredParams type / alg) are probed at positions 0, 2 and 5 (the later ones behind two known algorithms), with the entry's other member known or unknown, and with the entry's members encoded in canonical or in type-first order (for the latter only what the decoder accepts is judged). Oracle: within the limit -> accepted and EVERY member of the decoded request equals what was sent (the C01 oracle, so the probed value is delivered whole: not shortened, wrapped, sign-changed or clamped); beyond -> InvalidCbor, except the user icon which is dropped while the request is accepted. Every case sits on a boundary; distinct by message bytes.";
pub const ASSUMPTIONS: &[&str] = &["limit table transcribed from the property statement / CTAP specification (reqmodel::bounds)"];

pub fn run(ctx: &mut Ctx) {
    let bs = bounds();
    for (bi, b) in bs.iter().enumerate() {
        let np = probes(b.kind).len();
        for pi in 0..np {
            ctx.random(&G_BOUND, &[idx(bi, bs.len()), idx(pi, np)], ctx.t(150, 1_500), 700);
        }
        if ctx.too_many() {
            return;
        }
    }
    ctx.exhaustive.push(format!("all {} (command, member) bounds x all probe points", bs.len()));
    ctx.require(&["probe:cap", "probe:cap+1", "probe:cap-1", "probe:far-beyond", "probe:max", "probe:max+1", "probe:2^63", "probe:min", "probe:min-1", "probe:exact", "probe:exact+1", "probe:exact-1", "element-variant:sibling-unknown", "element-variant:type-first-order"]);
}
