//! C15 — encoding then decoding (and decoding then encoding) is the identity.

use crate::props::c02::{subsets, to_words};
use crate::refcbor;
use crate::respmodel as rs;
use crate::run::{idx, CaseResult, Ctx, Fail, Gen, Obs};
use crate::types::{self, TInfo, T};
use crate::util::{hex, Src};
use serde_json::json;

fn check_type(t: T, model: &refcbor::Value, obs: &mut Obs, ti: &TInfo) -> CaseResult {
    let exp = rs::expected(model);
    let bytes = refcbor::encode_canonical(&exp);
    obs.labelf(format!("type:{}", t.name()));
    if ti.nontrivial() || bytes.len() > 1 {
        obs.nontrivial(&[t.name().as_bytes(), &bytes]);
    }
    let mut payload = vec![types::ALL.iter().position(|x| *x == t).unwrap() as u8];
    payload.extend_from_slice(&refcbor::encode_canonical(model));
    let case = || json!({"type": t.name(), "canonical_hex": hex(&bytes), "model": refcbor::diag(&exp)});
    obs.case_with(case);
    // (i) constructed through the public API: decode(encode(v)) == v
    if let Some(r) = types::build_roundtrip(t, model) {
        obs.sub("direction:encode-then-decode", &[b"i", t.name().as_bytes(), &bytes]);
        r.map_err(|m| {
            Fail::new(
                format!("C15:{}:encode-then-decode:{}", t.name(), m.split(':').next().unwrap_or("")),
                format!("{}: value built through the API does not survive encode -> decode: {}", t.name(), m),
                case(),
            )
            .with_concrete("c15_concrete", payload.clone())
        })?;
    }
    // (ii) canonical bytes: encode(decode(b)) == b
    if let Some(r) = types::decode_reencode(t, &bytes) {
        obs.sub("direction:decode-then-encode", &[b"ii", t.name().as_bytes(), &bytes]);
        let out = r.map_err(|m| {
            Fail::new(
                format!("C15:{}:decode-then-encode:{}", t.name(), m.split(':').next().unwrap_or("")),
                format!("{}: {}", t.name(), m),
                case(),
            )
            .with_concrete("c15_concrete", payload.clone())
        })?;
        if out != bytes {
            let mut c = case();
            c["reencoded_hex"] = json!(hex(&out));
            let why = match refcbor::parse_strict(&out) {
                Ok(v) => match refcbor::eq_unordered(&exp, &v) {
                    Ok(()) => "same members, different byte order / encoding".to_string(),
                    Err(e) => e,
                },
                Err(e) => e.0,
            };
            let kind = if why.starts_with("same members") { "reordered" } else { "content" };
            return Err(Fail::new(
                format!("C15:{}:decode-then-encode:bytes-differ:{}", t.name(), kind),
                format!("{}: re-encoding the value decoded from canonical bytes does not reproduce them: {}", t.name(), why),
                c,
            )
            .with_concrete("c15_concrete", payload));
        }
    }
    obs.sample_with(|| json!({"type": t.name(), "canonical_hex": hex(&bytes[..bytes.len().min(120)]), "model": refcbor::diag(&exp)}));
    Ok(())
}

/// words: [type index, presence bits..., values...]
fn g_type(src: &mut Src, obs: &mut Obs) -> CaseResult {
    let t = types::ALL[src.below(types::ALL.len())];
    if !t.available() || !t.bidirectional() {
        obs.excluded = true;
        return Ok(());
    }
    let mut ti = TInfo::default();
    let model = types::gen(t, src, &mut ti);
    check_type(t, &model, obs, &ti)
}

/// every Unicode scalar value inside rp / user names (<= 64 bytes: lossless), both directions.
/// words: [scalar (raw), shape]
fn g_scalar(src: &mut Src, obs: &mut Obs) -> CaseResult {
    use refcbor::Value;
    let cp = src.word();
    let shape = src.below(3);
    let Some(c) = char::from_u32(cp) else {
        obs.excluded = true;
        return Ok(());
    };
    let name = match shape {
        0 => format!("A{}", c),
        1 => format!("{}{}z", c, c),
        _ => format!("name {} end", c),
    };
    obs.label("scalar-sweep");
    let (t, model) = if cp % 2 == 0 {
        (T::Rp, Value::Map(vec![(Value::text("id"), Value::text("example.org")), (Value::text("name"), Value::text(&name))]))
    } else {
        (
            T::User,
            Value::Map(vec![
                (Value::text("id"), Value::Bytes(vec![1, 2])),
                (Value::text("name"), Value::text(&name)),
                (Value::text("displayName"), Value::text(&name)),
                (Value::text("icon"), Value::text(&name)),
            ]),
        )
    };
    check_type(t, &model, obs, &TInfo::default())
}

/// every small value of every unsigned integer member of the bidirectional types (values that
/// code may special-case: 0, 1, sizes, defaults ...). words: [member selector, value (raw)]
fn g_uint(src: &mut Src, obs: &mut Obs) -> CaseResult {
    use refcbor::Value;
    let sel = src.word() as usize;
    let val = src.word() as u64;
    let ki = |k: i64, v: Value| (Value::int(k), v);
    // GetInfo usize members
    let uints: Vec<i64> = rs::getinfo_optional().iter().filter(|(_, k)| *k == rs::GiKind::Uint).map(|(k, _)| *k).collect();
    let n_gi = uints.len();
    obs.label("uint-sweep");
    let (t, model) = if sel % (n_gi + 6) < n_gi {
        let key = uints[sel % (n_gi + 6)];
        (T::GetInfo, Value::Map(vec![ki(1, Value::Array(vec![Value::text("FIDO_2_1")])), ki(3, Value::Bytes(vec![0; 16])), ki(key, Value::Uint(val))]))
    } else {
        match sel % (n_gi + 6) - n_gi {
            0 => (T::CpResponse, Value::Map(vec![ki(3, Value::Uint(val % 256))])),
            1 => (T::CpResponse, Value::Map(vec![ki(5, Value::Uint(val % 256))])),
            2 => (T::LbRequest, Value::Map(vec![ki(1, Value::Uint(val)), ki(3, Value::Uint(val / 2))])),
            3 => (T::LbRequest, Value::Map(vec![ki(3, Value::Uint(val)), ki(4, Value::Uint(val)), ki(6, Value::Uint(val % 7))])),
            4 => (T::CmRequest, Value::Map(vec![ki(1, Value::Uint(1 + val % 7)), ki(3, Value::Uint(val % 256))])),
            _ => (T::CpRequest, Value::Map(vec![ki(1, Value::Uint(val % 256)), ki(2, Value::Uint([1u64, 2, 3, 4, 5, 6, 7, 9][(val % 8) as usize])), ki(9, Value::Uint((val / 8) % 256))])),
        }
    };
    check_type(t, &model, obs, &TInfo::default())
}

pub const G_SCALAR: Gen = Gen { name: "c15_scalar", f: g_scalar };
pub const G_UINT: Gen = Gen { name: "c15_uint", f: g_uint };

fn g_concrete(src: &mut Src, obs: &mut Obs) -> CaseResult {
    let p = crate::run::unpack_bytes(src);
    obs.label("concrete");
    if p.is_empty() || p[0] as usize >= types::ALL.len() {
        return Ok(());
    }
    let t = types::ALL[p[0] as usize];
    if !t.available() || !t.bidirectional() {
        return Ok(());
    }
    let model = refcbor::parse_strict(&p[1..]).map_err(|e| Fail::new("C15:harness:concrete", e.0, json!({})))?;
    check_type(t, &model, obs, &TInfo::default())
}

pub const G_TYPE: Gen = Gen { name: "c15_type", f: g_type };
pub const G_CONCRETE: Gen = Gen { name: "c15_concrete", f: g_concrete };

pub fn gens() -> Vec<Gen> {
    vec![G_TYPE, G_CONCRETE, G_SCALAR, G_UINT]
}

pub const RULE: &str = "Every bidirectional type (ClientPin / CredentialManagement / LargeBlobs requests and sub-command parameters, GetInfo / ClientPin / LargeBlobs responses, hmac-secret input, authenticator options, the three extension maps, rp / user entities, owned and borrowed descriptors, parameters and the filtered parameter list, CtapOptions, Certifications, unsigned extension outputs, COSE keys, and the enumerations Version, Extension, Transport, AttestationStatementFormat, PinV1Subcommand, Subcommand, CredentialProtectionPolicy). Models are reference-CBOR values in the lossless sub-domain (names <= 64, icon <= 128, known algorithms, rp icon absent, COSE alg present, LargeBlobs config within the configuration's capacity); every subset of optional members (<= 8) or none/singletons/pairs/full is enumerated, values by proptest (lattice + random). Oracle: (i) for a value built through the public API, cbor_deserialize(cbor_serialize(v)) == v; (ii) for b = canonical reference encoding of the model, cbor_serialize(cbor_deserialize(b)) == b byte for byte (and decoding the re-encoding gives an equal value). No key table is consulted: the check fails exactly when the two directions disagree. Non-trivial: >= 1 optional member set and >= 1 unset, >= 2 members, or an encoding longer than one byte; evaluations count directions.";
pub const ASSUMPTIONS: &[&str] = &["refcbor canonical encoder is correct (selftest)", "the rp icon is excluded (documented exception: deliberately not re-emitted)"];

pub fn run(ctx: &mut Ctx) {
    let per = ctx.t(4, 40);
    for (i, t) in types::ALL.iter().enumerate() {
        if !t.available() || !t.bidirectional() {
            continue;
        }
        let k = types::presence_bits(*t);
        let subs = subsets(k, 8);
        for s in &subs {
            let mut w = vec![idx(i, types::ALL.len())];
            w.extend(to_words(s));
            ctx.random(&G_TYPE, &w, per, 700);
            if ctx.too_many() {
                return;
            }
        }
        ctx.random(&G_TYPE, &[idx(i, types::ALL.len())], ctx.t(300, 20_000), 700);
        ctx.exhaustive.push(format!("{}: {} presence prefixes", t.name(), subs.len()));
    }
    // every Unicode scalar inside entity names (quick: every 5th scalar, shape rotating)
    let step = ctx.t(5usize, 1);
    ctx.enumerate(
        &G_SCALAR,
        (0u32..0x11_0000).step_by(step).filter(|c| !(0xD800..0xE000).contains(c)).map(|c| vec![c, idx((c % 3) as usize, 3)]),
    );
    // every value 0..=4200 (and powers of two +-1 up to 2^32) through every unsigned member
    let n_members = rs::getinfo_optional().iter().filter(|(_, k)| *k == rs::GiKind::Uint).count() + 6;
    let mut vals: Vec<u32> = (0..=4200u32).collect();
    for b in 13..32 {
        vals.extend_from_slice(&[(1u32 << b) - 1, 1u32 << b, (1u32 << b) + 1]);
    }
    vals.push(u32::MAX);
    let vstep = ctx.t(3usize, 1);
    for m in 0..n_members {
        let vs: Vec<Vec<u32>> = vals.iter().skip(m % vstep).step_by(vstep).map(|v| vec![m as u32, *v]).collect();
        ctx.enumerate(&G_UINT, vs.into_iter());
    }
    ctx.exhaustive.push("every Unicode scalar (quick: every 5th) inside rp/user names; every value 0..=4200 and 2^k-1,2^k,2^k+1 through every unsigned member (quick: every 3rd value)".into());
    let mut req: Vec<String> = types::ALL.iter().filter(|t| t.available() && t.bidirectional()).map(|t| format!("type:{}", t.name())).collect();
    req.push("direction:encode-then-decode".into());
    req.push("direction:decode-then-encode".into());
    req.push("scalar-sweep".into());
    req.push("uint-sweep".into());
    let r: Vec<&str> = req.iter().map(|s| s.as_str()).collect();
    ctx.require(&r);
}
