//! C01 — CTAP2 request decoding is faithful to the specification's parameter tables.

use crate::refcbor::{self, Value};
use crate::reqmodel::*;
use crate::run::{bit, idx, CaseResult, Ctx, Fail, Gen, Obs};
use crate::util::{hex, Src};
use ctap_types::ctap2::Request;
use serde_json::json;

fn case_json(cmd: u8, msg: &[u8], model: &Value) -> serde_json::Value {
    json!({
        "command": format!("0x{:02x} {}", cmd, cmd_name(cmd)),
        "input_hex": hex(msg),
        "model": refcbor::diag(model),
    })
}

pub fn check_message(cmd: u8, model: &Value, msg: &[u8]) -> Result<(), (String, String)> {
    match Request::deserialize(msg) {
        Err(e) => Err((
            format!("C01:{}:rejected:0x{:02x}", cmd_name(cmd), e as u8),
            format!("well-formed {} request rejected with status 0x{:02x}", cmd_name(cmd), e as u8),
        )),
        Ok(req) => match check_request(cmd, model, &req) {
            Ok(()) => Ok(()),
            Err(m) => Err((
                format!("C01:{}:{}", cmd_name(cmd), strip_indices(member_of(&m))),
                format!("decoded {} request differs from what was sent: {}", cmd_name(cmd), m),
            )),
        },
    }
}

fn run_cmd(cmd: u8, src: &mut Src, obs: &mut Obs) -> CaseResult {
    let mut info = Info { foreign_members: true, ..Info::default() };
    let model = gen_for(cmd, src, &mut info);
    let msg = message(cmd, &model);
    obs.label(cmd_name(cmd));
    for l in &info.labels {
        obs.labelf(format!("{}:{}", cmd_name(cmd), l));
    }
    if info.lossy > 0 {
        obs.label("has-lossy-member");
    }
    if msg.len() > 7609 {
        obs.label("message>7609");
    }
    if info.nontrivial() {
        obs.nontrivial(&[&msg]);
    }
    obs.sample_with(|| {
        json!({"command": cmd_name(cmd), "bytes": msg.len(), "optional_present": info.present,
               "optional_absent": info.absent, "input_hex": hex(&msg[..msg.len().min(160)]),
               "model": refcbor::diag(&model)})
    });
    obs.case_with(|| case_json(cmd, &msg, &model));
    check_message(cmd, &model, &msg)
        .map_err(|(sig, m)| Fail::new(sig, m, case_json(cmd, &msg, &model)).with_concrete("c01_concrete", msg.clone()))?;
    // the same parameters with the entries of every map (at every level) in another order: legal
    // CBOR, not canonical. A decoder may refuse it; one that accepts it has been handed the same
    // members under the same keys and must report the same values (judged by the same oracle).
    if src.chance(1, 3) {
        let mut permuted = refcbor::canonicalize(&model);
        let mut moved = false;
        permute_maps(&mut permuted, src, &mut moved);
        if moved {
            let mut pm = vec![cmd];
            pm.extend_from_slice(&refcbor::encode(&permuted));
            obs.sub("member-order-permuted", &[b"perm", &pm]);
            if crate::props::c04::status_of(&pm).is_none() {
                check_message(cmd, &model, &pm).map_err(|(sig, m)| {
                    Fail::new(
                        format!("{}:permuted-member-order", sig),
                        format!("with the members of its maps in another order (accepted by the decoder): {}", m),
                        case_json(cmd, &pm, &model),
                    )
                })?;
            } else {
                obs.label("member-order-permuted:rejected");
            }
        }
    }
    Ok(())
}

/// rotate / reverse the entries of every map with at least two entries
fn permute_maps(v: &mut Value, src: &mut Src, moved: &mut bool) {
    match v {
        Value::Map(m) => {
            if m.len() >= 2 {
                if src.bool() {
                    m.reverse();
                } else {
                    let k = 1 + src.below(m.len() - 1);
                    m.rotate_left(k);
                }
                *moved = true;
            }
            for (_, x) in m.iter_mut() {
                permute_maps(x, src, moved);
            }
        }
        Value::Array(a) => {
            for x in a.iter_mut() {
                permute_maps(x, src, moved);
            }
        }
        _ => {}
    }
}

/// generator-independent replay: payload = the request message itself; the model is
/// recovered with the reference parser
fn g_concrete(src: &mut Src, obs: &mut Obs) -> CaseResult {
    let msg = crate::run::unpack_bytes(src);
    obs.label("concrete");
    if msg.is_empty() {
        return Ok(());
    }
    let cmd = msg[0];
    let model = refcbor::parse_strict(&msg[1..])
        .map_err(|e| Fail::new("C01:harness:concrete-not-cbor", e.0, json!({"input_hex": hex(&msg)})))?;
    obs.case_with(|| case_json(cmd, &msg, &model));
    check_message(cmd, &model, &msg)
        .map_err(|(sig, m)| Fail::new(sig, m, case_json(cmd, &msg, &model)).with_concrete("c01_concrete", msg.clone()))
}
pub const G_CONCRETE: Gen = Gen { name: "c01_concrete", f: g_concrete };

fn g_mc(s: &mut Src, o: &mut Obs) -> CaseResult {
    run_cmd(CMD_MC, s, o)
}
fn g_ga(s: &mut Src, o: &mut Obs) -> CaseResult {
    run_cmd(CMD_GA, s, o)
}
fn g_cp(s: &mut Src, o: &mut Obs) -> CaseResult {
    run_cmd(CMD_CP, s, o)
}
fn g_cm(s: &mut Src, o: &mut Obs) -> CaseResult {
    run_cmd(CMD_CM, s, o)
}
fn g_cm41(s: &mut Src, o: &mut Obs) -> CaseResult {
    run_cmd(CMD_CM_PREVIEW, s, o)
}
fn g_lb(s: &mut Src, o: &mut Obs) -> CaseResult {
    run_cmd(CMD_LB, s, o)
}

/// stand-alone nested types through cbor_deserialize::<T>
fn g_nested(src: &mut Src, obs: &mut Obs) -> CaseResult {
    use ctap_types::serde::cbor_deserialize;
    use ctap_types::webauthn::*;
    let mut info = Info::default();
    let which = src.below(3);
    let (name, model) = match which {
        0 => {
            let (a, b) = (src.bool(), src.below(3));
            ("rp", gen_rp(src, &mut info, a, b))
        }
        1 => {
            let (a, b, c) = (src.bool(), src.bool(), src.bool());
            ("user", gen_user(src, &mut info, a, b, c))
        }
        _ => ("descriptor", gen_descriptor(src, &mut info)),
    };
    let bytes = refcbor::encode_canonical(&model);
    obs.labelf(format!("standalone:{}", name));
    if info.nontrivial() {
        obs.nontrivial(&[&bytes]);
    }
    let r: Result<(), String> = match which {
        0 => cbor_deserialize::<PublicKeyCredentialRpEntity>(&bytes)
            .map_err(|e| format!("rejected: {:?}", e))
            .and_then(|g| check_rp("rp", &model, &g)),
        1 => cbor_deserialize::<PublicKeyCredentialUserEntity>(&bytes)
            .map_err(|e| format!("rejected: {:?}", e))
            .and_then(|g| check_user("user", &model, &g)),
        _ => cbor_deserialize::<PublicKeyCredentialDescriptorRef>(&bytes)
            .map_err(|e| format!("rejected: {:?}", e))
            .and_then(|g| check_descriptor_ref("descriptor", &model, &g)),
    };
    r.map_err(|m| {
        Fail::new(
            format!("C01:standalone:{}:{}", name, member_of(&m)),
            format!("stand-alone {} decoded wrongly: {}", name, m),
            json!({"type": name, "input_hex": hex(&bytes), "model": refcbor::diag(&model)}),
        )
    })
}

pub const RULE: &str = "One case in three is additionally sent with the entries of every map, at every level, in another order (legal, not canonical): if the decoder accepts it (COSE keys are order-strict and are refused) the same oracle must hold. Requests are constructed (never filtered): a parameter map is built as a reference-CBOR value from the specification's key table, every top-level presence subset and every nested presence combination is enumerated (proptest fills the values), plus free proptest cases; values come from the boundary lattice {0,1,cap-1,cap}/{0,1,23,24,255,256,65535,65536,max} or are random; message = command byte || canonical encoding. Oracle: Request::deserialize is Ok and every public field equals the member sent under its specification key after the documented lossy maps (implemented independently in the harness). Non-trivial: at least one optional member present and one absent, or a member on a lattice boundary; distinct by message bytes.";
pub const ASSUMPTIONS: &[&str] = &[
    "the harness's key tables (reqmodel.rs) are a faithful transcription of CTAP 2.0/2.1/2.2",
    "refcbor (reference encoder) is correct; guarded by `ctv selftest`",
    "ClientPin placeholder keys 7/8 are unassigned and never sent",
];

pub const G_MC: Gen = Gen { name: "c01_mc", f: g_mc };
pub const G_GA: Gen = Gen { name: "c01_ga", f: g_ga };
pub const G_CP: Gen = Gen { name: "c01_cp", f: g_cp };
pub const G_CM: Gen = Gen { name: "c01_cm", f: g_cm };
pub const G_CM41: Gen = Gen { name: "c01_cm41", f: g_cm41 };
pub const G_LB: Gen = Gen { name: "c01_lb", f: g_lb };
pub const G_NESTED: Gen = Gen { name: "c01_nested", f: g_nested };

pub fn gens() -> Vec<Gen> {
    vec![G_MC, G_GA, G_CP, G_CM, G_CM41, G_LB, G_NESTED, G_CONCRETE]
}

/// arity of each nested presence word (2 = bool, 3 = three-way)
pub fn nested_arity(cmd: u8) -> Vec<usize> {
    match cmd {
        CMD_MC => vec![2, 3, 2, 2, 2, 2, 2, 2, 2, 2, 2, 2],
        CMD_GA => vec![2; GA_NESTED],
        CMD_CP => vec![2; CP_NESTED],
        CMD_CM | CMD_CM_PREVIEW => vec![2; CM_NESTED],
        _ => vec![],
    }
}

pub fn gen_of(cmd: u8) -> Gen {
    match cmd {
        CMD_MC => G_MC,
        CMD_GA => G_GA,
        CMD_CP => G_CP,
        CMD_CM => G_CM,
        CMD_CM_PREVIEW => G_CM41,
        _ => G_LB,
    }
}

/// all presence prefixes: every top-level subset (nested random), then every nested
/// combination with all top-level members present
pub fn presence_prefixes(cmd: u8) -> (Vec<Vec<u32>>, Vec<Vec<u32>>) {
    let t = top_bits(cmd);
    let mut tops = vec![];
    for mask in 0..(1u32 << t) {
        tops.push((0..t).map(|i| bit(mask >> i & 1 == 1)).collect::<Vec<u32>>());
    }
    let ar = nested_arity(cmd);
    let mut nested = vec![];
    let total: usize = ar.iter().product();
    if !ar.is_empty() {
        for mut k in 0..total {
            let mut w: Vec<u32> = (0..t).map(|_| bit(true)).collect();
            for a in &ar {
                let d = k % a;
                k /= a;
                w.push(if *a == 2 { bit(d == 1) } else { idx(d, *a) });
            }
            nested.push(w);
        }
    }
    (tops, nested)
}

pub fn run(ctx: &mut Ctx) {
    let per_mask = ctx.t(10, 120);
    let per_nested = ctx.t(1, 12);
    let free = ctx.t(8_000, 150_000);
    for cmd in PARAM_CMDS {
        let g = gen_of(cmd);
        let (tops, nested) = presence_prefixes(cmd);
        for p in &tops {
            ctx.random(&g, p, per_mask, 1024);
        }
        for p in &nested {
            ctx.random(&g, p, per_nested, 1024);
        }
        ctx.random(&g, &[], free, 1024);
        ctx.exhaustive.push(format!(
            "{}: all {} top-level presence subsets and all {} nested presence combinations",
            cmd_name(cmd),
            tops.len(),
            nested.len()
        ));
        if ctx.too_many() {
            return;
        }
    }
    ctx.random(&G_NESTED, &[], ctx.t(3_000, 100_000), 512);
    ctx.require(&[
        "MakeCredential",
        "GetAssertion",
        "ClientPin",
        "CredentialManagement",
        "CredentialManagement(0x41)",
        "LargeBlobs",
        "has-lossy-member",
        "MakeCredential:rp.name>64",
        "MakeCredential:user.icon>128",
        "MakeCredential:user.id=cap",
        "MakeCredential:rp.id=cap",
        "MakeCredential:excludeList=cap",
        "GetAssertion:allowList=cap",
        "GetAssertion:saltEnc=cap",
        "MakeCredential:mc.pinProtocol=max",
        "LargeBlobs:lb.offset=max",
        "ClientPin:cp.permissions=max",
    ]);
}
