pub mod c01;
pub mod c02;
pub mod c03;

use crate::run::{Ctx, Gen};

pub struct Prop {
    pub id: &'static str,
    pub gens: fn() -> Vec<Gen>,
    pub run: fn(&mut Ctx),
    /// how cases are generated and what makes one non-trivial / distinct
    pub rule: &'static str,
    pub assumptions: &'static [&'static str],
}

pub fn all() -> Vec<Prop> {
    vec![
        Prop { id: "C01", gens: c01::gens, run: c01::run, rule: c01::RULE, assumptions: c01::ASSUMPTIONS },
        Prop { id: "C02", gens: c02::gens, run: c02::run, rule: c02::RULE, assumptions: c02::ASSUMPTIONS },
        Prop { id: "C03", gens: c03::gens, run: c03::run, rule: c03::RULE, assumptions: c03::ASSUMPTIONS },
    ]
}
