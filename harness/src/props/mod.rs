pub mod c01;
pub mod c02;
pub mod c03;
pub mod c04;
pub mod c05;
pub mod c06;
pub mod c07;
pub mod c08;
pub mod c09;
pub mod c10;
pub mod c11;
pub mod c12;
pub mod c13;
pub mod c14;
pub mod c15;
pub mod c16;
pub mod c17;
pub mod c18;
pub mod c19;

use crate::run::{Ctx, Gen};

pub struct Prop {
    pub id: &'static str,
    pub gens: fn() -> Vec<Gen>,
    pub run: fn(&mut Ctx),
    /// how cases are generated and what makes one non-trivial / distinct
    pub rule: &'static str,
    pub assumptions: &'static [&'static str],
}

pub fn all() -> Vec<Prop> {
    vec![
        Prop { id: "C01", gens: c01::gens, run: c01::run, rule: c01::RULE, assumptions: c01::ASSUMPTIONS },
        Prop { id: "C02", gens: c02::gens, run: c02::run, rule: c02::RULE, assumptions: c02::ASSUMPTIONS },
        Prop { id: "C03", gens: c03::gens, run: c03::run, rule: c03::RULE, assumptions: c03::ASSUMPTIONS },
        Prop { id: "C04", gens: c04::gens, run: c04::run, rule: c04::RULE, assumptions: c04::ASSUMPTIONS },
        Prop { id: "C05", gens: c05::gens, run: c05::run, rule: c05::RULE, assumptions: c05::ASSUMPTIONS },
        Prop { id: "C06", gens: c06::gens, run: c06::run, rule: c06::RULE, assumptions: c06::ASSUMPTIONS },
        Prop { id: "C11", gens: c11::gens, run: c11::run, rule: c11::RULE, assumptions: c11::ASSUMPTIONS },
        Prop { id: "C12", gens: c12::gens, run: c12::run, rule: c12::RULE, assumptions: c12::ASSUMPTIONS },
        Prop { id: "C13", gens: c13::gens, run: c13::run, rule: c13::RULE, assumptions: c13::ASSUMPTIONS },
        Prop { id: "C14", gens: c14::gens, run: c14::run, rule: c14::RULE, assumptions: c14::ASSUMPTIONS },
        Prop { id: "C08", gens: c08::gens, run: c08::run, rule: c08::RULE, assumptions: c08::ASSUMPTIONS },
        Prop { id: "C09", gens: c09::gens, run: c09::run, rule: c09::RULE, assumptions: c09::ASSUMPTIONS },
        Prop { id: "C07", gens: c07::gens, run: c07::run, rule: c07::RULE, assumptions: c07::ASSUMPTIONS },
        Prop { id: "C10", gens: c10::gens, run: c10::run, rule: c10::RULE, assumptions: c10::ASSUMPTIONS },
        Prop { id: "C15", gens: c15::gens, run: c15::run, rule: c15::RULE, assumptions: c15::ASSUMPTIONS },
        Prop { id: "C18", gens: c18::gens, run: c18::run, rule: c18::RULE, assumptions: c18::ASSUMPTIONS },
        Prop { id: "C17", gens: c17::gens, run: c17::run, rule: c17::RULE, assumptions: c17::ASSUMPTIONS },
        Prop { id: "C16", gens: c16::gens, run: c16::run, rule: c16::RULE, assumptions: c16::ASSUMPTIONS },
        Prop { id: "C19", gens: c19::gens, run: c19::run, rule: c19::RULE, assumptions: c19::ASSUMPTIONS },
    ]
}

/// Generators of one property that read their words as free choices (not as a packed payload):
/// what the `prop_choice` fuzz target searches when `CTV_FUZZ_PROP` names the property.
pub fn fuzz_gens_for(id: &str) -> Vec<Gen> {
    all()
        .into_iter()
        .filter(|p| p.id == id)
        .flat_map(|p| (p.gens)())
        .filter(|g| !g.name.ends_with("concrete") && !["c04_short", "c13_name", "c13_icon", "c14_params", "c14_formats", "c16_case"].contains(&g.name))
        .collect()
}

/// Generators exposed to the coverage-guided `choice` fuzz target (and to `ctv fuzz-artifact`,
/// which turns a libFuzzer artifact of that target back into an ordinary replay file).
pub fn fuzz_gens() -> Vec<Gen> {
    [
        c01::gens(),
        c04::gens(),
        // C05's generators apply every single fault to a seed (hundreds of decodes per case); they
        // are searched by their own `prop_choice` campaign and would only slow this shared one down
        c06::gens(),
        c12::gens(),
        c13::gens(),
        c14::gens(),
        c02::gens(),
        c15::gens(),
        c07::gens(),
    ]
    .concat()
    .into_iter()
    .filter(|g| {
        !g.name.ends_with("concrete")
            && g.name != "c04_short"
            && g.name != "c13_name"
            && g.name != "c13_icon"
            && g.name != "c14_params"
            && g.name != "c14_formats"
    })
    .collect()
}

/// property id a generator belongs to ("c04_mutate" -> "C04")
pub fn prop_of_gen(name: &str) -> String {
    name.split('_').next().unwrap_or("").to_uppercase()
}
