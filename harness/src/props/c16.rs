//! C16 — cargo features only add members; they never change the wire format of the rest.
//!
//! Every configuration runs the same seed-determined corpus restricted to feature-independent
//! members and writes a transcript; the driver compares the transcripts line for line.

use crate::props::c08;
use crate::refcbor::{self, Value};
use crate::reqmodel::*;
use crate::respmodel as rs;
use crate::run::{idx, CaseResult, Ctx, Gen, Obs};
use crate::types::{self, TInfo, T};
use crate::util::{hex, Src};
use ctap_types::ctap2::{self, Request};
use serde_json::json;
use std::cell::RefCell;

thread_local! {
    static LINE: RefCell<Option<(String, String)>> = const { RefCell::new(None) };
}

fn emit(kind: &str, payload: String) {
    LINE.with(|l| *l.borrow_mut() = Some((kind.to_string(), payload)));
}

struct CommonGuard;
impl CommonGuard {
    fn new() -> Self {
        rs::set_common_only(true);
        CommonGuard
    }
}
impl Drop for CommonGuard {
    fn drop(&mut self) {
        rs::set_common_only(false);
    }
}

fn kt(k: &str, v: Value) -> (Value, Value) {
    (Value::text(k), v)
}
fn ki(k: i64, v: Value) -> (Value, Value) {
    (Value::int(k), v)
}
fn ob(v: Option<&[u8]>) -> Value {
    v.map(|b| Value::Bytes(b.to_vec())).unwrap_or(Value::Null)
}
fn ou(v: Option<u64>) -> Value {
    v.map(Value::Uint).unwrap_or(Value::Null)
}
fn obool(v: Option<bool>) -> Value {
    v.map(Value::Bool).unwrap_or(Value::Null)
}
fn os(v: Option<&str>) -> Value {
    v.map(Value::text).unwrap_or(Value::Null)
}

fn p_user(u: &ctap_types::webauthn::PublicKeyCredentialUserEntity) -> Value {
    Value::Map(vec![kt("id", Value::Bytes(u.id.to_vec())), kt("icon", os(u.icon.as_deref())), kt("name", os(u.name.as_deref())), kt("displayName", os(u.display_name.as_deref()))])
}
fn p_desc(d: &ctap_types::webauthn::PublicKeyCredentialDescriptorRef) -> Value {
    Value::Map(vec![kt("id", Value::Bytes(d.id.to_vec())), kt("type", Value::text(d.key_type))])
}
fn p_opts(o: Option<&ctap2::AuthenticatorOptions>) -> Value {
    match o {
        None => Value::Null,
        Some(o) => Value::Map(vec![kt("rk", obool(o.rk)), kt("up", obool(o.up)), kt("uv", obool(o.uv))]),
    }
}
fn p_formats(f: Option<&ctap2::AttestationFormatsPreference>) -> Value {
    match f {
        None => Value::Null,
        Some(f) => Value::Map(vec![
            kt("known", Value::Array(f.known_formats().iter().map(|x| Value::text(<&str>::from(*x))).collect())),
            kt("unknown", Value::Bool(f.includes_unknown_formats())),
        ]),
    }
}
fn p_cose(k: &cosey::EcdhEsHkdf256PublicKey) -> Value {
    Value::Map(vec![kt("x", Value::Bytes(k.x.to_vec())), kt("y", Value::Bytes(k.y.to_vec()))])
}

/// projection of a decoded request onto the members common to all configurations
pub fn project(r: &Request) -> Value {
    match r {
        Request::MakeCredential(m) => Value::Map(vec![
            ki(0, Value::text("MakeCredential")),
            ki(1, Value::Bytes(m.client_data_hash.to_vec())),
            ki(2, Value::Map(vec![kt("id", Value::text(m.rp.id.as_str())), kt("name", os(m.rp.name.as_deref())), kt("icon", Value::Bool(m.rp.icon.is_some()))])),
            ki(3, p_user(&m.user)),
            ki(4, Value::Array(m.pub_key_cred_params.0.iter().map(|k| Value::int(k.alg as i64)).collect())),
            ki(5, m.exclude_list.as_ref().map(|l| Value::Array(l.iter().map(p_desc).collect())).unwrap_or(Value::Null)),
            ki(
                6,
                m.extensions
                    .as_ref()
                    .map(|e| Value::Map(vec![kt("credProtect", ou(e.cred_protect.map(u64::from))), kt("hmac-secret", obool(e.hmac_secret)), kt("largeBlobKey", obool(e.large_blob_key))]))
                    .unwrap_or(Value::Null),
            ),
            ki(7, p_opts(m.options.as_ref())),
            ki(8, ob(m.pin_auth.map(|b| &b[..]))),
            ki(9, ou(m.pin_protocol.map(u64::from))),
            ki(10, ou(m.enterprise_attestation.map(u64::from))),
            ki(11, p_formats(m.attestation_formats_preference.as_ref())),
        ]),
        Request::GetAssertion(g) => Value::Map(vec![
            ki(0, Value::text("GetAssertion")),
            ki(1, Value::text(g.rp_id)),
            ki(2, Value::Bytes(g.client_data_hash.to_vec())),
            ki(3, g.allow_list.as_ref().map(|l| Value::Array(l.iter().map(p_desc).collect())).unwrap_or(Value::Null)),
            ki(
                4,
                g.extensions
                    .as_ref()
                    .map(|e| {
                        Value::Map(vec![
                            kt(
                                "hmac-secret",
                                e.hmac_secret
                                    .as_ref()
                                    .map(|h| Value::Map(vec![ki(1, p_cose(&h.key_agreement)), ki(2, Value::Bytes(h.salt_enc.to_vec())), ki(3, Value::Bytes(h.salt_auth.to_vec())), ki(4, ou(h.pin_protocol.map(u64::from)))]))
                                    .unwrap_or(Value::Null),
                            ),
                            kt("largeBlobKey", obool(e.large_blob_key)),
                        ])
                    })
                    .unwrap_or(Value::Null),
            ),
            ki(5, p_opts(g.options.as_ref())),
            ki(6, ob(g.pin_auth.map(|b| &b[..]))),
            ki(7, ou(g.pin_protocol.map(u64::from))),
            ki(8, ou(g.enterprise_attestation.map(u64::from))),
            ki(9, p_formats(g.attestation_formats_preference.as_ref())),
        ]),
        Request::ClientPin(c) => Value::Map(vec![
            ki(0, Value::text("ClientPin")),
            ki(1, Value::Uint(c.pin_protocol as u64)),
            ki(2, Value::Uint(pin_subcommand_number(&c.sub_command))),
            ki(3, c.key_agreement.as_ref().map(p_cose).unwrap_or(Value::Null)),
            ki(4, ob(c.pin_auth.map(|b| &b[..]))),
            ki(5, ob(c.new_pin_enc.map(|b| &b[..]))),
            ki(6, ob(c.pin_hash_enc.map(|b| &b[..]))),
            ki(9, ou(c.permissions.map(u64::from))),
            ki(10, os(c.rp_id)),
        ]),
        Request::CredentialManagement(c) => Value::Map(vec![
            ki(0, Value::text("CredentialManagement")),
            ki(1, Value::Uint(cm_subcommand_number(&c.sub_command))),
            ki(
                2,
                c.sub_command_params
                    .as_ref()
                    .map(|p| Value::Map(vec![ki(1, ob(p.rp_id_hash.map(|h| &h[..]))), ki(2, p.credential_id.as_ref().map(p_desc).unwrap_or(Value::Null)), ki(3, p.user.as_ref().map(p_user).unwrap_or(Value::Null))]))
                    .unwrap_or(Value::Null),
            ),
            ki(3, ou(c.pin_protocol.map(u64::from))),
            ki(4, ob(c.pin_auth.map(|b| &b[..]))),
        ]),
        Request::LargeBlobs(l) => Value::Map(vec![
            ki(0, Value::text("LargeBlobs")),
            ki(1, ou(l.get.map(u64::from))),
            ki(2, ob(l.set.map(|b| &b[..]))),
            ki(3, Value::Uint(l.offset as u64)),
            ki(4, ou(l.length.map(u64::from))),
            ki(5, ob(l.pin_uv_auth_param.map(|b| &b[..]))),
            ki(6, ou(l.pin_uv_auth_protocol.map(u64::from))),
        ]),
        other => Value::Map(vec![ki(0, Value::text(variant_name(other)))]),
    }
}

/// words: [case class (0..6), sub selector, values...]
fn g_case(src: &mut Src, obs: &mut Obs) -> CaseResult {
    let _g = CommonGuard::new();
    let class = src.below(7);
    match class {
        6 => {
            // decode: canonical bytes of a stand-alone type built from common members, intact or
            // with one member removed / one value of another type (optionality and typing of the
            // common members must not depend on the configuration)
            let t = types::ALL[src.below(types::ALL.len())];
            let mut ti = TInfo::default();
            let mut model = rs::expected(&types::gen(t, src, &mut ti));
            // the LargeBlobs fragment capacity is documented to depend on `large-blobs`: a fault could
            // put a non-empty fragment there, so that type is only decoded intact
            let fault = if t == T::LbResponse { 0 } else { src.below(4) };
            let paths = crate::mutate::walk(&model);
            if fault >= 2 && paths.len() > 1 {
                let p = paths[1 + src.below(paths.len() - 1)].clone();
                if fault == 2 {
                    crate::mutate::remove(&mut model, &p);
                } else if let Some(n) = crate::mutate::get_mut(&mut model, &p) {
                    *n = crate::mutate::palette(src.below(7));
                }
            }
            obs.labelf(format!("decode-type:{}", t.name()));
            if fault >= 2 {
                obs.label("decode-type:faulted");
            }
            let bytes = refcbor::encode_canonical(&model);
            let line = if t == T::Certifications || !t.available() {
                "SKIPPED".to_string()
            } else {
                match types::decode_reencode(t, &bytes) {
                    Some(Ok(b)) => format!("ok {}", hex(&b)),
                    Some(Err(e)) => format!("ERROR {}", if e.starts_with("decode:") { e.as_str() } else { e.split(':').next().unwrap_or("") }),
                    None => "NONE".into(),
                }
            };
            if matches!(t, T::GetInfo | T::CtapOptions | T::McExt | T::GaExtIn | T::GaExtOut | T::CmResponse) {
                obs.nontrivial(&[t.name().as_bytes(), &bytes]);
            }
            obs.sample_with(|| json!({"class": "decode-type", "type": t.name(), "input": refcbor::diag(&model), "transcript": line.chars().take(100).collect::<String>()}));
            emit("decode-type", format!("{} {} {}", t.name(), hex(&bytes), line));
        }
        0 => {
            // encode: a response of any kind, common members only
            let kind = rs::KINDS[src.below(rs::KINDS.len())];
            let mut info = rs::RInfo::default();
            let model = rs::gen_response(kind, src, &mut info);
            obs.labelf(format!("encode:{}", kind.name()));
            let touches_gated = matches!(kind, rs::Kind::GetInfo | rs::Kind::CredentialManagement | rs::Kind::LargeBlobs);
            let line = match rs::build(kind, &model) {
                Ok(r) => {
                    // directly, and as a handler's answer through the dispatch entry point
                    let via = match crate::echo::through_dispatch(&r, src.below(2)) {
                        Ok(Ok(r2)) => hex(&rs::serialize_full(&r2)),
                        Ok(Err(st)) => format!("STATUS-{:02x}", st),
                        Err(e) => e,
                    };
                    // the same response into buffers that are just too small, just large enough, and
                    // of the usual small transport sizes: what fits (or not) must not depend on features
                    let full = rs::serialize_full(&r);
                    let mut small = String::new();
                    if full.len() > 1 {
                        let mut caps: Vec<usize> = vec![64, 128, 256, 1024];
                        for c in crate::caps::CAPS.iter().rev() {
                            if *c < full.len() {
                                caps.push(*c);
                                break;
                            }
                        }
                        if let Some(c) = crate::caps::CAPS.iter().find(|c| **c >= full.len()) {
                            caps.push(*c);
                        }
                        for c in caps {
                            if let Some(b) = crate::caps::ser_n(&r, c, &[]) {
                                small.push_str(&format!(" cap{}={}", c, crate::util::digest(&[&b])));
                            }
                        }
                    }
                    format!("{} via-dispatch {}{}", hex(&full), via, small)
                }
                Err(e) => format!("BUILD-ERROR {}", e),
            };
            if touches_gated {
                obs.nontrivial(&[kind.name().as_bytes(), line.as_bytes()]);
            }
            obs.sample_with(|| json!({"class": "encode", "kind": kind.name(), "model": refcbor::diag(&rs::expected(&model)), "transcript": line.chars().take(120).collect::<String>()}));
            emit("encode", format!("{} {}", kind.name(), line));
        }
        1 => {
            // encode: a stand-alone type
            let t = types::ALL[src.below(types::ALL.len())];
            let mut ti = TInfo::default();
            let model = types::gen(t, src, &mut ti);
            obs.labelf(format!("encode-type:{}", t.name()));
            let line = if !t.available() && t != T::Certifications {
                "UNAVAILABLE".to_string()
            } else if t == T::Certifications {
                // exists only under get-info-full: not a common member, nothing to compare
                "SKIPPED".to_string()
            } else {
                match types::build_ser(t, &model) {
                    Some(Ok(b)) => hex(&b),
                    Some(Err(e)) => format!("ERROR {}", e),
                    None => match types::decode_reencode(t, &refcbor::encode_canonical(&rs::expected(&model))) {
                        Some(Ok(b)) => format!("reenc {}", hex(&b)),
                        Some(Err(e)) => format!("ERROR {}", e),
                        None => "NONE".into(),
                    },
                }
            };
            if matches!(t, T::GetInfo | T::CtapOptions | T::McExt | T::GaExtIn | T::GaExtOut | T::CmResponse | T::LbResponse) {
                obs.nontrivial(&[t.name().as_bytes(), line.as_bytes()]);
            }
            emit("encode-type", format!("{} {}", t.name(), line));
        }
        2 => {
            // decode: a request message using common members only
            let cmd = PARAM_CMDS[src.below(PARAM_CMDS.len())];
            let mut info = Info::default();
            let model = gen_for(cmd, src, &mut info);
            let msg = message(cmd, &model);
            obs.labelf(format!("decode:{}", cmd_name(cmd)));
            let line = match Request::deserialize(&msg) {
                Ok(r) => hex(&refcbor::encode(&project(&r))),
                Err(e) => format!("STATUS 0x{:02x}", e as u8),
            };
            if cmd == CMD_MC || cmd == CMD_GA {
                obs.nontrivial(&[&msg]);
            }
            obs.sample_with(|| json!({"class": "decode", "command": cmd_name(cmd), "input_hex": hex(&msg[..msg.len().min(100)]), "transcript": line.chars().take(120).collect::<String>()}));
            emit("decode", format!("{} {}", cmd_name(cmd), line));
        }
        3 => {
            // decode: a mutated / faulty request: the status must not depend on features either
            let cmd = PARAM_CMDS[src.below(PARAM_CMDS.len())];
            let mut info = Info::default();
            let mut model = refcbor::canonicalize(&gen_for(cmd, src, &mut info));
            let mut labels = vec![];
            if let Some(l) = crate::mutate::mutate_tree(&mut model, src, 7609) {
                labels.push(l);
            }
            let mut msg = vec![cmd];
            msg.extend_from_slice(&refcbor::encode(&model));
            msg.truncate(7609);
            // mutations may introduce the (feature-dependent) key thirdPartyPayment only by accident: it is not in the corpus
            obs.label("decode-faulty");
            let line = match Request::deserialize(&msg) {
                Ok(r) => hex(&refcbor::encode(&project(&r))),
                Err(e) => format!("STATUS 0x{:02x}", e as u8),
            };
            emit("decode-faulty", format!("{} {}", cmd_name(cmd), line));
        }
        4 => {
            // authenticator data, both flavours
            let mc = src.bool();
            let mut ti = TInfo::default();
            let rp = src.bytes(32);
            let mut h = [0u8; 32];
            h.copy_from_slice(&rp);
            let flags = ctap2::AuthenticatorDataFlags::from_bits_truncate(src.byte());
            let count = src.word();
            obs.label("authdata");
            let line = if mc {
                let model = types::gen(T::McExt, src, &mut ti);
                // lengths over the whole legal range, and sums on both sides of the 676-byte capacity
                let idl = match src.below(5) {
                    0 => 20,
                    1 => 255,
                    2 => src.range(240, 256),
                    3 => src.range(0, 700),
                    _ => src.range(0, 255),
                };
                let keyl = *src.pick(&[77usize, 42, 78, 110, 256, 253, 250, 0, 300]);
                let id = src.bytes(idl);
                let key = src.bytes(keyl);
                match types::build_mc_ext(&model) {
                    Ok(ext) => {
                        let ad = ctap2::make_credential::AuthenticatorData {
                            rp_id_hash: &h,
                            flags,
                            sign_count: count,
                            attested_credential_data: Some(ctap2::make_credential::AttestedCredentialData { aaguid: &[7; 16], credential_id: &id, credential_public_key: &key }),
                            extensions: Some(ext),
                        };
                        ad.serialize().map(|b| hex(&b)).unwrap_or("ERROR".into())
                    }
                    Err(e) => format!("ERROR {}", e),
                }
            } else {
                let model = types::gen(T::GaExtOut, src, &mut ti);
                match types::build_ga_ext_out(&model) {
                    Ok(ext) => {
                        let ad = ctap2::get_assertion::AuthenticatorData { rp_id_hash: &h, flags, sign_count: count, attested_credential_data: None, extensions: Some(ext) };
                        ad.serialize().map(|b| hex(&b)).unwrap_or("ERROR".into())
                    }
                    Err(e) => format!("ERROR {}", e),
                }
            };
            obs.nontrivial(&[line.as_bytes()]);
            emit("authdata", line);
        }
        _ => {
            // CTAP1: request parsing and response encoding
            let ins = 1 + src.below(3) as u8;
            let p1 = *src.pick(&[3u8, 7, 8, 0]);
            let n = *src.pick(&[64usize, 65, 70, 0, 63]);
            let mut data = src.bytes(n);
            if n > 64 {
                data[64] = (n - 65) as u8;
            }
            let apdu = c08::frame(0, ins, p1, 0, &data, 0).unwrap_or_default();
            obs.label("ctap1");
            let line = match iso7816::command::CommandView::try_from(&apdu[..]) {
                Ok(v) => format!("{:?}", ctap_types::ctap1::Request::try_from(v)),
                Err(e) => format!("APDU {:?}", e),
            };
            emit("ctap1", line);
        }
    }
    Ok(())
}

pub const G_CASE: Gen = Gen { name: "c16_case", f: g_case };

pub fn gens() -> Vec<Gen> {
    vec![G_CASE]
}

pub const RULE: &str = "A fixed, seed-determined corpus (the proptest seed is derived from VERIF_SEED and the property only, not from the configuration, and every generator is switched to its common-members-only mode, so all configurations generate the same cases): responses of every kind and stand-alone serialisable types built from feature-independent members (encode transcript: hex of Response::serialize / cbor_serialize output, for responses both directly and after travelling through call_ctap2 / Rpc::call as the answer of an echoing authenticator); request messages of every parameter-bearing command, well-formed and structurally mutated (decode transcript: the decoded value projected by the harness onto the members common to all configurations and rendered as reference CBOR, or the status code); authenticator data of both flavours; CTAP1 APDUs; canonical encodings of every stand-alone decodable type built from common members, intact or with one member removed / one value replaced by another type (decode-type transcript: status class or the re-encoding). LargeBlobs responses use only an absent/empty config (its capacity is documented to be feature-dependent). Oracle: the transcripts written by the 8 wire configurations and by the all-features+arbitrary(std) build are identical line for line (compared by the driver; the first differing case is the replay). Non-trivial: a case touching a struct that has feature-gated members in some configuration (GetInfo, CtapOptions, CredentialManagement response, the three extension maps, MakeCredential/GetAssertion requests).";
pub const ASSUMPTIONS: &[&str] = &["the projection (c16::project) reads only members that exist in every configuration", "Certifications exists only under get-info-full and is therefore not compared"];

pub fn run(ctx: &mut Ctx) {
    ctx.seed_config = "common".into();
    let mut lines: Vec<String> = vec![];
    let per = ctx.t(700, 20_000);
    for class in 0..7usize {
        // run case by case so that each transcript line is attributable to (gen, words)
        let before = ctx.evaluations;
        let _ = before;
        // proptest drives the cases; a wrapper collects the transcript line of each executed case
        run_collect(ctx, class, per, &mut lines);
    }
    if let Some(out) = &ctx.out_path {
        let _ = std::fs::write(format!("{}.transcript", out), lines.join("\n"));
    }
    ctx.extra.insert("transcript_lines".into(), json!(lines.len()));
    ctx.require(&["encode:GetInfo", "encode:CredentialManagement", "decode:MakeCredential", "decode:GetAssertion", "decode-faulty", "authdata", "ctap1", "encode-type:get_info::CtapOptions", "decode-type:get_info::CtapOptions", "decode-type:faulted"]);
}

/// Generate the word vectors with proptest first (pure generation, same in every configuration),
/// then execute them one by one, recording one transcript line per case.
fn run_collect(ctx: &mut Ctx, class: usize, cases: u64, lines: &mut Vec<String>) {
    use proptest::prelude::*;
    use proptest::strategy::ValueTree;
    use proptest::test_runner::{Config, RngAlgorithm, TestRng, TestRunner};
    let mut seed = [0u8; 32];
    for (i, c) in seed.chunks_mut(8).enumerate() {
        c.copy_from_slice(&crate::util::digest(&[&ctx.seed.to_le_bytes(), b"C16", &[class as u8, i as u8]]).to_le_bytes());
    }
    let mut runner = TestRunner::new_with_rng(Config { failure_persistence: None, ..Config::default() }, TestRng::from_seed(RngAlgorithm::ChaCha, &seed));
    let strat = proptest::collection::vec(any::<u32>(), 500..=500);
    for _ in 0..cases {
        let tail = match strat.new_tree(&mut runner) {
            Ok(t) => t.current(),
            Err(_) => break,
        };
        let mut words = vec![idx(class, 7)];
        words.extend_from_slice(&tail);
        LINE.with(|l| *l.borrow_mut() = None);
        let fail = ctx.exec(&G_CASE, &words);
        let (kind, payload) = LINE.with(|l| l.borrow_mut().take()).unwrap_or(("none".into(), "NO-LINE".into()));
        // keep only the words the case consumed? the full vector is needed for replay; store a digest-free short form
        // only the words the case consumed are needed to replay it
        words.truncate(ctx.last_used.min(words.len()));
        lines.push(format!("c16_case {} {} {}{}", serde_json::to_string(&words).unwrap().replace(' ', ""), kind, payload, if fail.is_some() { " PANIC" } else { "" }));
    }
}
