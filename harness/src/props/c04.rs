//! C04 — decoding untrusted CTAP2 bytes never panics, aborts or hangs (and is deterministic).
//! Also hosts the shared "decode outcome" helpers used by C05.

use crate::mutate;
use crate::refcbor::{self, Value};
use crate::reqmodel::*;
use crate::run::{idx, CaseResult, Ctx, Fail, Gen, Obs};
use crate::types::{self, TInfo};
use crate::util::{hex, Src};
use ctap_types::ctap2::Request;
use serde_json::json;

pub const MAX_MSG: usize = 7609;

/// status code of a rejected request, or None if accepted
pub fn status_of(msg: &[u8]) -> Option<u8> {
    match Request::deserialize(msg) {
        Ok(_) => None,
        Err(e) => Some(e as u8),
    }
}

/// The C04 oracle on one input. Panics propagate to the runner (and are violations);
/// aborts kill the worker (the driver turns that into a violation via journal mode).
pub fn check_input(msg: &[u8], obs: &mut Obs) -> Result<Option<u8>, Fail> {
    obs.case_with(|| json!({"input_hex": hex(msg), "len": msg.len()}));
    let r1 = Request::deserialize(msg);
    // same bytes at a different address and alignment, with different surroundings
    let mut moved = Vec::with_capacity(msg.len() + 9);
    moved.extend_from_slice(&[0xEE; 5]);
    moved.extend_from_slice(msg);
    moved.extend_from_slice(&[0x77; 4]);
    let r2 = Request::deserialize(&moved[5..5 + msg.len()]);
    if r1 != r2 {
        return Err(Fail::new(
            "C04:nondeterministic",
            format!("same bytes decoded differently: {:?} vs {:?}", r1.as_ref().map(variant_name), r2.as_ref().map(variant_name)),
            json!({"input_hex": hex(msg)}),
        )
        .with_concrete("c04_concrete", msg.to_vec()));
    }
    let st = match &r1 {
        Ok(_) => None,
        Err(e) => Some(*e as u8),
    };
    if let Some(s) = st {
        if s != 0x01 && s != 0x12 && s != 0x14 {
            return Err(Fail::new(
                format!("C04:status-outside-set:0x{:02x}", s),
                format!("rejected with status 0x{:02x}, not one of 0x01/0x12/0x14", s),
                json!({"input_hex": hex(msg)}),
            )
            .with_concrete("c04_concrete", msg.to_vec()));
        }
    }
    Ok(st)
}

fn label_outcome(obs: &mut Obs, st: Option<u8>) {
    match st {
        None => obs.label("outcome:accepted"),
        Some(0x01) => obs.label("outcome:0x01"),
        Some(0x12) => obs.label("outcome:0x12"),
        Some(0x14) => obs.label("outcome:0x14"),
        Some(_) => obs.label("outcome:other"),
    }
}

fn nontrivial_rule(msg: &[u8], obs: &mut Obs) {
    // first byte is a parameter-bearing command and the payload gets past the map header
    if msg.len() > 2 && PARAM_CMDS.contains(&msg[0]) && msg[1] >> 5 == 5 {
        obs.nontrivial(&[msg]);
    }
}

/// exhaustive short inputs. words: [len (raw), value (raw, big-endian bytes)]
fn g_short(src: &mut Src, obs: &mut Obs) -> CaseResult {
    let len = (src.word() as usize).min(4);
    let val = src.word();
    let all = val.to_be_bytes();
    let msg = &all[4 - len..];
    obs.labelf(format!("short:len{}", len));
    let st = check_input(msg, obs)?;
    label_outcome(obs, st);
    nontrivial_rule(msg, obs);
    obs.sample_with(|| json!({"input_hex": hex(msg), "outcome": st.map(|s| format!("0x{:02x}", s)).unwrap_or("accepted".into())}));
    Ok(())
}

/// valid message for a command, then 1..3 structure- or byte-level mutations
fn g_mutate(src: &mut Src, obs: &mut Obs) -> CaseResult {
    let cmd = PARAM_CMDS[src.below(PARAM_CMDS.len())];
    let mut info = Info::default();
    let mut model = crate::refcbor::canonicalize(&gen_for(cmd, src, &mut info));
    let mut info2 = Info::default();
    let other_cmd = PARAM_CMDS[src.below(PARAM_CMDS.len())];
    let other = message(other_cmd, &gen_for(other_cmd, src, &mut info2));
    let n_mut = src.range(1, 3);
    let mut labels: Vec<String> = vec![];
    let mut head_fault = false;
    // structure-level first
    let mut byte_muts = 0;
    for _ in 0..n_mut {
        match src.below(5) {
            0 | 1 | 2 => {
                if let Some(l) = mutate::mutate_tree(&mut model, src, MAX_MSG) {
                    labels.push(l);
                }
            }
            3 => head_fault = true,
            _ => byte_muts += 1,
        }
    }
    let mut msg = vec![cmd];
    if head_fault {
        let (b, l) = mutate::encode_with_random_head_fault(&model, src);
        msg.extend_from_slice(&b);
        if let Some(l) = l {
            labels.push(format!("head:{}", l));
        }
    } else {
        msg.extend_from_slice(&refcbor::encode(&model));
    }
    for _ in 0..byte_muts {
        labels.push(format!("byte:{}", mutate::mutate_bytes(&mut msg, &other, src)));
    }
    msg.truncate(MAX_MSG);
    obs.label(cmd_name(cmd));
    for l in &labels {
        let parts: Vec<&str> = l.split(':').collect();
        let keep = if matches!(parts[0], "nest" | "unknown-deep" | "head" | "byte") { 2 } else { 1 };
        obs.labelf(format!("mut:{}", parts.iter().take(keep).cloned().collect::<Vec<_>>().join(":")));
    }
    if msg.len() > 1024 {
        obs.label("len>1024");
    }
    let st = check_input(&msg, obs)?;
    label_outcome(obs, st);
    nontrivial_rule(&msg, obs);
    obs.sample_with(|| json!({"command": cmd_name(cmd), "mutations": labels, "len": msg.len(), "input_hex": hex(&msg[..msg.len().min(120)]),
        "outcome": st.map(|s| format!("0x{:02x}", s)).unwrap_or("accepted".into())}));
    Ok(())
}

/// truncation of a valid message at a chosen offset (every offset is covered in C05; here random)
/// and deep nesting up to the size limit inside an unknown option
fn g_deep(src: &mut Src, obs: &mut Obs) -> CaseResult {
    let cmd = if src.bool() { CMD_MC } else { CMD_GA };
    let mut info = Info::default();
    let mut model = gen_for(cmd, src, &mut info);
    let depth = *src.pick(&[1usize, 15, 16, 17, 63, 64, 65, 255, 256, 1000, 2000, 4000, 7000, 7590]);
    let kind = src.below(4);
    let inner = match kind {
        3 => {
            // alternate kinds
            let mut v = Value::Uint(0);
            for i in 0..depth {
                v = mutate::nest(v, 1, i);
            }
            v
        }
        k => mutate::nest(Value::Uint(0), depth, k),
    };
    // host: options map (key 7 for MC, 5 for GA); create it if absent
    let okey = if cmd == CMD_MC { 7 } else { 5 };
    let m = model.as_map_mut().unwrap();
    if !m.iter().any(|(k, _)| *k == Value::int(okey)) {
        m.push((Value::int(okey), Value::Map(vec![])));
    }
    let host = m.iter_mut().find(|(k, _)| *k == Value::int(okey)).unwrap();
    if let Value::Map(om) = &mut host.1 {
        let pos = src.below(om.len() + 1);
        om.insert(pos, (Value::text("x"), inner));
    }
    // put the options member last so that the budget truncation cuts inside the nesting
    let model = refcbor::canonicalize(&model);
    let mut msg = vec![cmd];
    msg.extend_from_slice(&refcbor::encode(&model));
    let truncated = msg.len() > MAX_MSG;
    msg.truncate(MAX_MSG);
    obs.labelf(format!("deep:{}", if depth > 64 { ">64" } else { "<=64" }));
    if depth >= 7000 {
        obs.label("deep:>=7000");
    }
    if truncated {
        obs.label("deep:truncated-at-7609");
    }
    let st = check_input(&msg, obs)?;
    label_outcome(obs, st);
    nontrivial_rule(&msg, obs);
    obs.sample_with(|| json!({"command": cmd_name(cmd), "nesting_depth": depth, "len": msg.len(), "outcome": st.map(|s| format!("0x{:02x}", s)).unwrap_or("accepted".into())}));
    Ok(())
}

/// "length fields that lie": for a valid message, every container / string head in turn claims
/// a huge length or element count (2^16-1, 2^32-1) while the data that follows is unchanged or
/// cut right after the head. Decoding must return promptly with a status, whatever the claim.
fn g_lie(src: &mut Src, obs: &mut Obs) -> CaseResult {
    let cmd = PARAM_CMDS[src.below(PARAM_CMDS.len())];
    let mut info = Info::default();
    let model = refcbor::canonicalize(&gen_for(cmd, src, &mut info));
    let heads = refcbor::heads(&model);
    obs.label("length-lie");
    obs.label(cmd_name(cmd));
    for (idx, (major, n)) in heads.iter().enumerate() {
        if !(2..=5).contains(major) {
            continue;
        }
        for arg in [0xFFFFu64, 0xFFFF_FFFF, 0x7FFF_FFFF, (*n + 1000).min(0xFFFF_FFFE)] {
            let (body, applied) = refcbor::encode_fault(&model, refcbor::HeadFault::Lie { idx, arg });
            if !applied {
                continue;
            }
            for cut in [false, true] {
                let mut msg = vec![cmd];
                msg.extend_from_slice(&body);
                if cut {
                    // keep only up to and including the lying head
                    let prefix = refcbor::encode_fault(&model, refcbor::HeadFault::None).0;
                    let _ = prefix;
                    let keep = head_end_offset(&model, idx);
                    msg.truncate(1 + keep);
                }
                msg.truncate(MAX_MSG);
                obs.sub(&format!("lie:major{}", major), &[&msg]);
                let st = check_input(&msg, obs)?;
                if st.is_none() && cut {
                    // a message cut right after a head that announces more data cannot be complete
                    return Err(Fail::new(
                        format!("C04:truncated-after-lying-head-accepted:major{}", major),
                        format!("{} message cut after a head announcing {} items/bytes was accepted", cmd_name(cmd), arg),
                        json!({"input_hex": hex(&msg)}),
                    )
                    .with_concrete("c04_concrete", msg.clone()));
                }
            }
        }
    }
    Ok(())
}

/// A well-formed request with ONE unknown member somewhere (a text-keyed nested map, any
/// position) whose VALUE is malformed or unusual at the encoding level: every head inside the
/// unknown value in turn gets a reserved additional-information value, a wider-than-needed
/// encoding, the indefinite form, or a lying length. The decoder only skips this value, a path
/// with its own error handling; whatever it decides, it must return one of the three statuses.
pub fn unknown_fault_messages(src: &mut Src) -> Option<(u8, Vec<(String, Vec<u8>)>)> {
    use crate::mutate::Step;
    use crate::refcbor::HeadFault;
    let cmd = PARAM_CMDS[src.below(PARAM_CMDS.len())];
    let mut info = Info::default();
    let mut model = refcbor::canonicalize(&gen_for(cmd, src, &mut info));
    // hosts: maps below the top level (their keys are text or small integers)
    let hosts: Vec<mutate::Path> = mutate::maps(&model).into_iter().filter(|p| !p.is_empty()).collect();
    if hosts.is_empty() {
        return None;
    }
    let hp = hosts[src.below(hosts.len())].clone();
    let depth = *src.pick(&[0usize, 1, 2, 3]);
    let val = if src.chance(1, 4) { mutate::realistic_unknown(src).1 } else { mutate::any_value(src, depth) };
    let key = Value::text("zz-unknown");
    if let Some(Value::Map(m)) = mutate::get_mut(&mut model, &hp) {
        let pos = src.below(m.len() + 1);
        m.insert(pos, (key.clone(), val.clone()));
    }
    let mut vp = hp.clone();
    vp.push(Step::Key(key));
    let start = mutate::head_index_of(&model, &vp)?;
    let n_heads = refcbor::heads(&val).len();
    let mut out = vec![];
    for idx in start..start + n_heads {
        let mut faults: Vec<HeadFault> = (28u8..=31).map(|ai| HeadFault::Reserved { idx, ai }).collect();
        for width in [1u8, 2, 4, 8] {
            faults.push(HeadFault::Wider { idx, width });
        }
        faults.push(HeadFault::Indefinite { idx });
        faults.push(HeadFault::Lie { idx, arg: 0xFFFF });
        faults.push(HeadFault::Lie { idx, arg: u64::MAX });
        for f in faults {
            let (body, applied) = refcbor::encode_fault(&model, f);
            if !applied {
                continue;
            }
            let mut msg = vec![cmd];
            msg.extend_from_slice(&body);
            msg.truncate(MAX_MSG);
            let name = format!("{:?}", f);
            out.push((name.split(' ').next().unwrap_or("").to_string(), msg));
        }
    }
    Some((cmd, out))
}

fn g_unknown_fault(src: &mut Src, obs: &mut Obs) -> CaseResult {
    let Some((cmd, msgs)) = unknown_fault_messages(src) else {
        obs.label("unknown-fault:no-nested-map");
        return Ok(());
    };
    obs.label("unknown-fault");
    obs.label(cmd_name(cmd));
    for (name, msg) in msgs {
        obs.sub(&format!("unknown-fault:{}", name), &[&msg]);
        let st = check_input(&msg, obs)?;
        label_outcome(obs, st);
    }
    Ok(())
}
pub const G_UNKNOWN_FAULT: Gen = Gen { name: "c04_unknown_fault", f: g_unknown_fault };

/// COSE keys with additional entries. The COSE key parser of the dependency stops at the first
/// label it does not know WITHOUT reading that entry's value, so a key whose map head announces
/// more entries than kty/alg/crv/x/y leaves bytes behind that nothing has looked at: a complete
/// extra entry, several, only a label, or a label followed by a truncated value - as the last
/// thing in the message (clientPIN keyAgreement, hmac-secret keyAgreement) or followed by more.
/// words: [host, extra shape, label, followed-by-more, values...]
fn g_cose_tail(src: &mut Src, obs: &mut Obs) -> CaseResult {
    let x = src.bytes(32);
    let y = src.bytes(32);
    let n_extra = 1 + src.below(3);
    let mut key = vec![0xA0 | (5 + n_extra as u8), 0x01, 0x02, 0x03, 0x38, 0x18, 0x20, 0x01, 0x21, 0x58, 0x20];
    key.extend_from_slice(&x);
    key.extend_from_slice(&[0x22, 0x58, 0x20]);
    key.extend_from_slice(&y);
    let shape = src.below(5);
    for i in 0..n_extra {
        let label: u8 = *src.pick(&[0x04u8, 0x05, 0x23, 0x24, 0x00, 0x17, 0x61]);
        key.push(label);
        if label == 0x61 {
            key.push(b'k');
        }
        let last = i + 1 == n_extra;
        match (shape, last) {
            (0, true) => {}                                       // only a label
            (1, true) => key.extend_from_slice(&[0x58, 0x20, 1, 2, 3]), // value cut short
            (2, true) => key.push(0x1C),                          // reserved head as value
            _ => key.extend_from_slice(&[0x42, 0xAB, 0xCD]),     // a complete value
        }
    }
    let host = src.below(2);
    let more = src.bool();
    let mut msg: Vec<u8>;
    if host == 0 {
        // clientPIN: subCommand getKeyAgreement.. with keyAgreement (0x03); optionally pinAuth (0x04) after it
        let sub = *src.pick(&[2u8, 5, 3, 9]);
        msg = vec![0x06, if more { 0xA4 } else { 0xA3 }, 0x01, 0x01, 0x02, sub, 0x03];
        msg.extend_from_slice(&key);
        if more {
            msg.extend_from_slice(&[0x04, 0x42, 0x01, 0x02]);
        }
    } else {
        // getAssertion with the hmac-secret extension: {1: rpId, 2: hash, 4: {"hmac-secret": {1: key, 2: saltEnc, 3: saltAuth}}}
        msg = vec![0x02, if more { 0xA4 } else { 0xA3 }, 0x01, 0x61, b'a', 0x02, 0x58, 0x20];
        msg.extend_from_slice(&[7u8; 32]);
        msg.extend_from_slice(&[0x04, 0xA1, 0x6B]);
        msg.extend_from_slice(b"hmac-secret");
        // keyAgreement placed LAST inside the hmac-secret map (legal, not canonical) or first
        let key_last = src.bool();
        msg.push(0xA3);
        if !key_last {
            msg.push(0x01);
            msg.extend_from_slice(&key);
        }
        msg.extend_from_slice(&[0x02, 0x58, 0x20]);
        msg.extend_from_slice(&[9u8; 32]);
        msg.extend_from_slice(&[0x03, 0x50]);
        msg.extend_from_slice(&[8u8; 16]);
        if key_last {
            msg.push(0x01);
            msg.extend_from_slice(&key);
        }
        if more {
            msg.extend_from_slice(&[0x05, 0xA1, 0x62, b'u', b'p', 0xF5]);
        }
    }
    obs.label("cose-key-with-extra-entries");
    obs.labelf(format!("cose-tail:shape{}", shape));
    let st = check_input(&msg, obs)?;
    label_outcome(obs, st);
    nontrivial_rule(&msg, obs);
    Ok(())
}
pub const G_COSE_TAIL: Gen = Gen { name: "c04_cose_tail", f: g_cose_tail };

/// byte offset just after the head with pre-order index `idx` in the shortest-form encoding
fn head_end_offset(v: &Value, idx: usize) -> usize {
    // encode with the head made indefinite is not suitable; instead encode a marker: re-encode with
    // a lie that changes nothing but lets us find the position by diffing against a 1-larger lie
    let a = refcbor::encode_fault(v, refcbor::HeadFault::Lie { idx, arg: 0xFFFF_FFFF }).0;
    let b = refcbor::encode_fault(v, refcbor::HeadFault::Lie { idx, arg: 0xFFFF_FFFE }).0;
    let first_diff = a.iter().zip(b.iter()).position(|(x, y)| x != y).unwrap_or(a.len().min(b.len()));
    // the two encodings differ in the last byte of the 5-byte head
    first_diff + 1
}

/// stand-alone public types through cbor_deserialize::<T> on mutated encodings
fn g_types(src: &mut Src, obs: &mut Obs) -> CaseResult {
    let t = types::ALL[src.below(types::ALL.len())];
    if !t.available() || !t.decodable() {
        obs.excluded = true;
        return Ok(());
    }
    let mut ti = TInfo::default();
    let mut model = types::gen(t, src, &mut ti);
    let mut labels = vec![];
    if src.bool() {
        if let Some(l) = mutate::mutate_tree(&mut model, src, MAX_MSG) {
            labels.push(l);
        }
    }
    let mut bytes = refcbor::encode(&crate::respmodel::expected(&model));
    let n = src.below(3);
    for _ in 0..n {
        labels.push(mutate::mutate_bytes(&mut bytes, &[0xA1, 0x01, 0x02], src));
    }
    bytes.truncate(MAX_MSG);
    obs.labelf(format!("type:{}", t.name()));
    obs.case_with(|| json!({"type": t.name(), "input_hex": hex(&bytes)}));
    let r = types::decode_reencode(t, &bytes);
    let ok = matches!(r, Some(Ok(_)));
    obs.label(if ok { "outcome:accepted" } else { "outcome:rejected" });
    if bytes.len() > 1 {
        obs.nontrivial(&[t.name().as_bytes(), &bytes]);
    }
    obs.sample_with(|| json!({"type": t.name(), "mutations": labels, "input_hex": hex(&bytes[..bytes.len().min(100)]), "accepted": ok}));
    Ok(())
}

/// generator-independent replay: payload = the raw input
fn g_concrete(src: &mut Src, obs: &mut Obs) -> CaseResult {
    let msg = crate::run::unpack_bytes(src);
    obs.label("concrete");
    let st = check_input(&msg, obs)?;
    label_outcome(obs, st);
    Ok(())
}

pub const G_SHORT: Gen = Gen { name: "c04_short", f: g_short };
pub const G_MUTATE: Gen = Gen { name: "c04_mutate", f: g_mutate };
pub const G_DEEP: Gen = Gen { name: "c04_deep", f: g_deep };
pub const G_LIE: Gen = Gen { name: "c04_lie", f: g_lie };
pub const G_TYPES: Gen = Gen { name: "c04_types", f: g_types };
pub const G_CONCRETE: Gen = Gen { name: "c04_concrete", f: g_concrete };

pub fn gens() -> Vec<Gen> {
    vec![G_SHORT, G_MUTATE, G_DEEP, G_LIE, G_UNKNOWN_FAULT, G_COSE_TAIL, G_TYPES, G_CONCRETE]
}

pub const RULE: &str = "(a) exhaustive: every byte string of length 0..3 (16 843 009 inputs) and, in the thorough tier, every 4-byte input whose first byte is a parameter-bearing command (quick: a 2^21 stride sample of them); (b) proptest: a valid message for a random command from the C01 generator, then 1-3 mutations from {grow a string/list/map across capacity boundaries up to the 7609-byte budget, push an integer past its range (255..2^64-1, negative), replace a node by another type, wrap a node in up to 7500 nesting levels, duplicate/drop a map entry, corrupt UTF-8, insert an unknown member with deep nesting, re-encode a head non-minimally or indefinite, byte flip/insert/delete/splice/truncate/special byte}; (c') every container/string head of a valid message in turn announcing 2^16-1 / 2^31-1 / 2^32-1 / n+1000 items while the data is unchanged or cut right after the head; (c'') a well-formed request with one unknown member in a nested map whose value has, head by head, a reserved additional-information value / a wider-than-needed head / the indefinite form / a lying length (the decoder's value skipper has its own error paths); (c''') COSE keys (clientPIN keyAgreement, hmac-secret keyAgreement) whose map announces 1-3 entries beyond kty/alg/crv/x/y - complete, label only, label with a cut or reserved-head value - as the last item of the message or followed by further members (the dependency's key parser stops at the first unknown label without reading its value); (c) nesting depth ladders up to 7590 levels inside an unknown option, truncated at 7609 bytes; (d) mutated encodings of every stand-alone decodable public type through cbor_deserialize::<T>. Oracle: the call returns (a panic is caught and is a violation; an abort/stack overflow kills the worker and is reproduced in journal mode), an error status is one of 0x01/0x12/0x14, and decoding the same bytes at another address/alignment gives an equal result. Built with debug assertions and overflow checks; decoding runs on an 8 MiB stack. Non-trivial: first byte is a parameter-bearing command and the payload starts with a map header followed by at least one byte; distinct by input bytes.";
pub const ASSUMPTIONS: &[&str] = &[
    "non-termination is only observable as a watchdog hit (reported as inconclusive, exit 2)",
    "stack exhaustion is judged against an 8 MiB stack",
    "debug assertions + overflow checks make unsafe-precondition violations and arithmetic wrap visible as panics/aborts",
];

pub fn run(ctx: &mut Ctx) {
    // (a) exhaustive short inputs
    ctx.enumerate(&G_SHORT, std::iter::once(vec![0u32, 0]));
    ctx.enumerate(&G_SHORT, (0..=0xFFu32).map(|v| vec![1, v]));
    ctx.enumerate(&G_SHORT, (0..=0xFFFFu32).map(|v| vec![2, v]));
    ctx.enumerate(&G_SHORT, (0..=0xFF_FFFFu32).map(|v| vec![3, v]));
    ctx.exhaustive.push("all byte strings of length 0..=3".into());
    if ctx.too_many() {
        return;
    }
    if ctx.quick() {
        // sample of 4-byte inputs for the parameter-bearing commands: stride over the tail
        for cmd in PARAM_CMDS {
            ctx.enumerate(&G_SHORT, (0..(1u32 << 21)).map(move |i| vec![4, (cmd as u32) << 24 | (i.wrapping_mul(8) ^ (i >> 18))]));
        }
    } else {
        for cmd in PARAM_CMDS {
            ctx.enumerate(&G_SHORT, (0..(1u32 << 24)).map(move |i| vec![4, (cmd as u32) << 24 | i]));
        }
        ctx.exhaustive.push("all 4-byte inputs starting with a parameter-bearing command byte".into());
    }
    if ctx.too_many() {
        return;
    }
    ctx.random(&G_MUTATE, &[], ctx.t(120_000, 6_000_000), 1400);
    ctx.random(&G_DEEP, &[], ctx.t(3_000, 60_000), 700);
    ctx.random(&G_COSE_TAIL, &[], ctx.t(4_000, 100_000), 120);
    for (ci, _) in PARAM_CMDS.iter().enumerate() {
        let nbits = top_bits(PARAM_CMDS[ci]) + nested_bits(PARAM_CMDS[ci]);
        // the full message (every member present) and free messages
        let mut full = vec![idx(ci, PARAM_CMDS.len())];
        full.extend(std::iter::repeat(crate::run::bit(true)).take(nbits));
        ctx.random(&G_LIE, &full, ctx.t(6, 200), 900);
        ctx.random(&G_LIE, &[idx(ci, PARAM_CMDS.len())], ctx.t(30, 2_000), 900);
        ctx.random(&G_UNKNOWN_FAULT, &[idx(ci, PARAM_CMDS.len())], ctx.t(600, 20_000), 900);
    }
    for (i, t) in types::ALL.iter().enumerate() {
        if t.available() && t.decodable() {
            ctx.random(&G_TYPES, &[idx(i, types::ALL.len())], ctx.t(1_500, 60_000), 700);
        }
    }
    ctx.require(&[
        "short:len0", "short:len1", "short:len2", "short:len3", "short:len4", "outcome:accepted", "outcome:0x01",
        "outcome:0x12", "outcome:0x14", "mut:grow-bytes", "mut:grow-text", "mut:grow-array", "mut:int-range",
        "mut:type-replace", "mut:nest:>64", "mut:dup-entry", "mut:corrupt-utf8", "mut:unknown-deep:>64", "mut:head:Wider",
        "mut:head:Indefinite", "mut:head:Lie", "mut:head:Reserved", "unknown-fault:Reserved", "unknown-fault:Wider", "cose-key-with-extra-entries", "cose-tail:shape0", "mut:byte:flip", "mut:byte:insert", "mut:byte:delete", "mut:byte:splice", "mut:byte:truncate", "mut:byte:append",
        "length-lie", "lie:major2", "lie:major3", "lie:major4", "lie:major5", "deep:>64", "deep:>=7000", "deep:truncated-at-7609", "len>1024",
    ]);
}
