//! C03 — everything the authenticator emits is CTAP2 canonical CBOR.

use crate::props::c02::{self, sig_of, subsets, to_words, Mode};
use crate::refcbor::{self, Value};
use crate::respmodel as rs;
use crate::run::{idx, CaseResult, Ctx, Fail, Gen, Obs};
use crate::types::{self, TInfo, T};
use crate::util::{hex, Src};
use ctap_types::ctap2;
use serde_json::json;

/// stand-alone serialisable type: words = [type index, presence bits..., values...]
fn g_type(src: &mut Src, obs: &mut Obs) -> CaseResult {
    let t = types::ALL[src.below(types::ALL.len())];
    if !t.available() {
        obs.excluded = true;
        return Ok(());
    }
    let mut ti = TInfo::default();
    let model = types::gen(t, src, &mut ti);
    let exp = rs::expected(&model);
    let model_bytes = refcbor::encode_canonical(&exp);
    obs.labelf(format!("type:{}", t.name()));
    let case = |out: &[u8]| json!({"type": t.name(), "model_hex": hex(&refcbor::encode_canonical(&model)), "model": refcbor::diag(&exp), "output_hex": hex(out)});
    obs.case_with(|| case(&[]));
    // obtain the crate's encoding: through the public API when constructible, else by decoding
    // the reference encoding and re-encoding
    let out = match types::build_ser(t, &model) {
        Some(r) => r,
        None => types::decode_reencode(t, &model_bytes).unwrap_or(Err("no way to obtain a value".into())),
    }
    .map_err(|e| Fail::new(format!("C03:type:{}:harness-or-encode-failed", t.name()), e, case(&[])))?;
    let entries = exp.as_map().map(|m| m.len()).unwrap_or(0);
    if entries >= 2 || out.len() > 2 {
        obs.nontrivial(&[t.name().as_bytes(), &out]);
    }
    obs.sample_with(|| json!({"type": t.name(), "model": refcbor::diag(&exp), "output_hex": hex(&out[..out.len().min(160)])}));
    refcbor::check_canonical(&out).map_err(|m| {
        Fail::new(sig_of("C03", t.name(), &m), format!("{} does not encode canonically: {}", t.name(), m), case(&out))
    })?;
    Ok(())
}

/// extension map at the tail of authenticator data (both flavours, all subsets)
fn g_authdata(src: &mut Src, obs: &mut Obs) -> CaseResult {
    let flavour_mc = src.bool();
    let with_att = src.bool();
    let rp_hash = {
        let b = src.bytes(32);
        let mut a = [0u8; 32];
        a.copy_from_slice(&b);
        a
    };
    let flags = ctap2::AuthenticatorDataFlags::from_bits_truncate(src.byte());
    let count = src.word();
    let (out, prefix_len, model) = if flavour_mc {
        let n = types::presence_bits(T::McExt);
        let _ = n;
        let mut ti = TInfo::default();
        let model = types::gen(T::McExt, src, &mut ti);
        let ext = types::build_mc_ext(&model).map_err(|e| Fail::new("C03:harness", e, json!({})))?;
        let aaguid = src.bytes(16);
        // small ids, and ids that put the extension map across the 676-byte capacity
        let idl = if src.chance(1, 3) { src.range(500, 560) } else { src.range(0, 64) };
        let id = src.bytes(idl);
        let key = src.bytes(77);
        let ad = ctap2::make_credential::AuthenticatorData {
            rp_id_hash: &rp_hash,
            flags,
            sign_count: count,
            attested_credential_data: if with_att {
                Some(ctap2::make_credential::AttestedCredentialData { aaguid: &aaguid, credential_id: &id, credential_public_key: &key })
            } else {
                None
            },
            extensions: Some(ext),
        };
        let pl = 37 + if with_att { 16 + 2 + idl + 77 } else { 0 };
        obs.label("authdata:make_credential");
        (ad.serialize(), pl, model)
    } else {
        let mut ti = TInfo::default();
        let model = types::gen(T::GaExtOut, src, &mut ti);
        let ext = types::build_ga_ext_out(&model).map_err(|e| Fail::new("C03:harness", e, json!({})))?;
        let ad = ctap2::get_assertion::AuthenticatorData {
            rp_id_hash: &rp_hash,
            flags,
            sign_count: count,
            attested_credential_data: None,
            extensions: Some(ext),
        };
        obs.label("authdata:get_assertion");
        (ad.serialize(), 37, model)
    };
    let out = match out {
        Ok(o) => o,
        Err(_) => {
            // does not fit the capacity: nothing is emitted, nothing to judge (C07 decides the frontier)
            obs.label("authdata:over-capacity");
            return Ok(());
        }
    };
    let tail = &out[prefix_len.min(out.len())..];
    let n = model.as_map().map(|m| m.len()).unwrap_or(0);
    if n >= 2 {
        obs.nontrivial(&[tail, &[flavour_mc as u8]]);
    }
    obs.sample_with(|| json!({"flavour": if flavour_mc {"make_credential"} else {"get_assertion"}, "extensions": refcbor::diag(&model), "tail_hex": hex(tail)}));
    let case = json!({"flavour": if flavour_mc {"make_credential"} else {"get_assertion"}, "extensions": refcbor::diag(&model), "tail_hex": hex(tail), "authdata_hex": hex(&out)});
    let parsed = refcbor::check_canonical(tail).map_err(|m| {
        Fail::new(sig_of("C03", "authdata-extensions", &m), format!("extension map in authenticator data is not canonical: {}", m), case.clone())
    })?;
    refcbor::eq_unordered(&model, &parsed).map_err(|m| Fail::new("C03:authdata-extensions:content", m, case))?;
    Ok(())
}

const UTHRESH: [u64; 16] = [
    0, 1, 23, 24, 255, 256, 65535, 65536, 0xFFFF_FFFF, 0x1_0000_0000, 0x7FFF_FFFF, 0x8000_0000,
    1 << 63, u64::MAX - 1, u64::MAX, 100,
];
const ITHRESH: [i64; 18] = [
    0, -1, 23, 24, -24, -25, 255, 256, -256, -257, 65535, 65536, -65536, -65537,
    i32::MAX as i64, i32::MIN as i64, -7, -8,
];

/// integers at and around every head-width threshold through each integer-typed member
fn g_ints(src: &mut Src, obs: &mut Obs) -> CaseResult {
    let member = src.below(8);
    let ui = src.below(UTHRESH.len());
    let ii = src.below(ITHRESH.len());
    let u = UTHRESH[ui];
    let i = ITHRESH[ii];
    let kvi = |k: i64, v: Value| (Value::int(k), v);
    let (name, kind, model, want): (&str, rs::Kind, Value, Value) = match member {
        0 | 1 | 2 => {
            // a usize member of GetInfo (u64 on this platform)
            let opt = rs::getinfo_optional();
            let uints: Vec<i64> = opt.iter().filter(|(_, k)| *k == rs::GiKind::Uint).map(|(k, _)| *k).collect();
            let key = uints[src.below(uints.len())];
            let m = Value::Map(vec![kvi(1, Value::Array(vec![])), kvi(3, Value::Bytes(vec![0; 16])), kvi(key, Value::Uint(u))]);
            ("GetInfo.usize", rs::Kind::GetInfo, m, Value::Uint(u))
        }
        3 => {
            let key = *src.pick(&[1i64, 2, 5, 9]);
            let v = u.min(u32::MAX as u64);
            ("CredentialManagement.u32", rs::Kind::CredentialManagement, Value::Map(vec![kvi(key, Value::Uint(v))]), Value::Uint(v))
        }
        4 => {
            let key = *src.pick(&[3i64, 5]);
            let v = u.min(255);
            ("ClientPin.u8", rs::Kind::ClientPin, Value::Map(vec![kvi(key, Value::Uint(v))]), Value::Uint(v))
        }
        5 => {
            let v = u.min(u32::MAX as u64);
            let m = Value::Map(vec![
                kvi(1, Value::Map(vec![(Value::text("id"), Value::Bytes(vec![1])), (Value::text("type"), Value::text("public-key"))])),
                kvi(2, Value::Bytes(vec![])),
                kvi(3, Value::Bytes(vec![])),
                kvi(5, Value::Uint(v)),
            ]);
            ("GetAssertion.numberOfCredentials", rs::Kind::GetAssertion, m, Value::Uint(v))
        }
        6 => {
            let m = Value::Map(vec![
                kvi(1, Value::text("packed")),
                kvi(2, Value::Bytes(vec![])),
                kvi(3, Value::Map(vec![(Value::text("alg"), Value::int(i)), (Value::text("sig"), Value::Bytes(vec![9]))])),
            ]);
            ("MakeCredential.attStmt.alg", rs::Kind::MakeCredential, m, Value::int(i))
        }
        _ => {
            // byte-string length heads: 23/24, 255/256 through authData / config
            let n = *src.pick(&[0usize, 23, 24, 255, 256, 676]);
            let m = Value::Map(vec![kvi(1, Value::text("none")), kvi(2, Value::Bytes(vec![0xAB; n]))]);
            ("MakeCredential.authData.len", rs::Kind::MakeCredential, m, Value::Uint(n as u64))
        }
    };
    obs.labelf(format!("int:{}", name));
    let resp = rs::build(kind, &model).map_err(|e| Fail::new("C03:harness:build", e, json!({"model": refcbor::diag(&model)})))?;
    let out = rs::serialize_full(&resp);
    obs.nontrivial(&[name.as_bytes(), &out]);
    obs.sample_with(|| json!({"member": name, "value": refcbor::show(&want), "output_hex": hex(&out)}));
    let case = json!({"member": name, "value": refcbor::show(&want), "model": refcbor::diag(&model), "output_hex": hex(&out)});
    if out.len() < 2 || out[0] != 0 {
        return Err(Fail::new(format!("C03:int:{}:status", name), "did not serialise", case));
    }
    let parsed = refcbor::check_canonical(&out[1..])
        .map_err(|m| Fail::new(format!("C03:int:{}:{}", name, m.split(" at ").next().unwrap_or("")), format!("{} = {}: {}", name, refcbor::show(&want), m), case.clone()))?;
    refcbor::eq_unordered(&rs::expected(&model), &parsed)
        .map_err(|m| Fail::new(format!("C03:int:{}:value", name), format!("{} = {}: {}", name, refcbor::show(&want), m), case))?;
    Ok(())
}

pub const G_TYPE: Gen = Gen { name: "c03_type", f: g_type };
pub const G_AUTHDATA: Gen = Gen { name: "c03_authdata", f: g_authdata };
pub const G_INTS: Gen = Gen { name: "c03_ints", f: g_ints };

pub fn gens() -> Vec<Gen> {
    vec![c02::K_GI, c02::K_MC, c02::K_GA, c02::K_GN, c02::K_CP, c02::K_CM, c02::K_LB, c02::K_LEN, c02::K_CONCRETE, G_TYPE, G_AUTHDATA, G_INTS]
}

pub const RULE: &str = "(i) every response body produced by the C02 generators (all kinds; every presence subset / all member pairs); (ii) every stand-alone serialisable type (options, certifications, extensions, entities, descriptors, parameters, packed attestation statement, COSE keys, hmac-secret input, ClientPin/CredentialManagement/LargeBlobs requests, response structs) with every subset (<= 8 optional members) or none/singletons/all pairs/full of its optional members, constructed through the public API (or obtained by decoding for decode-only-constructible requests) and encoded with cbor_serialize; (iii) the extension map at the tail of AuthenticatorData::serialize for both flavours and all subsets; (iv) integers at every head-width threshold through each integer-typed member; (v) every length 0..=max of every freely sizeable byte/text member of the all-members response of every kind (string heads at every width change), through Response::serialize; (vi) every response of (i) additionally serialised into a buffer that already holds the same message (reuse without clearing) and into one pre-filled with sentinel bytes: what follows the status byte must again be one canonical item. Oracle: the independent validator check_canonical (one item, no trailing bytes, definite lengths, shortest heads, no tags/floats/undefined/simple, no duplicate keys, keys in CTAP2 canonical order, at every depth). Non-trivial: a map with >= 2 entries at some level or an output longer than a one-byte head; distinct by output bytes.";
pub const ASSUMPTIONS: &[&str] = &[
    "check_canonical implements RFC 8949 + CTAP2 canonical rules correctly (guarded by `ctv selftest` positive and negative vectors)",
    "pairs suffice for key order because emission order is declaration order for every subset",
];

pub fn run(ctx: &mut Ctx) {
    c02::run_mode(ctx, Mode::Canonical);
    c02::run_len_sweep(ctx, Mode::Canonical);
    // stand-alone types: presence subsets / pairs
    let per = ctx.t(3, 30);
    for (ti, t) in types::ALL.iter().enumerate() {
        if !t.available() {
            continue;
        }
        let k = types::presence_bits(*t);
        let subs = subsets(k, 8);
        for s in &subs {
            let mut w = vec![idx(ti, types::ALL.len())];
            w.extend(to_words(s));
            ctx.random(&G_TYPE, &w, per, 600);
            if ctx.too_many() {
                return;
            }
        }
        ctx.random(&G_TYPE, &[idx(ti, types::ALL.len())], ctx.t(150, 5_000), 600);
        ctx.exhaustive.push(format!("{}: {} presence prefixes", t.name(), subs.len()));
    }
    // authenticator data tails: flavour x attested x subsets
    for fl in [false, true] {
        for att in [false, true] {
            ctx.random(&G_AUTHDATA, &to_words(&[fl, att]), ctx.t(400, 20_000), 200);
        }
    }
    // integer thresholds: exhaustive over (member class, threshold index)
    for m in 0..8 {
        for u in 0..UTHRESH.len() {
            for i in 0..ITHRESH.len() {
                if (m == 6) != (u == 0) && !(m == 6 && u == 0) {
                    // signed thresholds matter only for member 6, unsigned for the others
                    if m == 6 && u != 0 {
                        continue;
                    }
                    if m != 6 && i != 0 {
                        continue;
                    }
                }
                let w = vec![idx(m, 8), idx(u, UTHRESH.len()), idx(i, ITHRESH.len())];
                ctx.random(&G_INTS, &w, ctx.t(2, 8), 8);
            }
        }
    }
    ctx.require(&[
        "GetInfo", "MakeCredential", "GetAssertion", "ClientPin", "CredentialManagement", "LargeBlobs",
        "type:get_info::CtapOptions", "type:AuthenticatorOptions", "type:make_credential::Extensions",
        "type:get_assertion::ExtensionsInput", "type:get_assertion::ExtensionsOutput",
        "type:PublicKeyCredentialUserEntity", "type:PublicKeyCredentialRpEntity",
        "type:PublicKeyCredentialDescriptor", "type:PublicKeyCredentialParameters",
        "type:PackedAttestationStatement", "type:cosey::PublicKey", "type:client_pin::Request",
        "type:credential_management::Request", "type:large_blobs::Request",
        "authdata:make_credential", "authdata:get_assertion", "authdata:over-capacity", "int:GetInfo.usize",
        "int:MakeCredential.attStmt.alg",
    ]);
    if rs::GIF {
        ctx.require(&["type:get_info::Certifications"]);
    }
}
