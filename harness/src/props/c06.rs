//! C06 — unknown options, extensions and entity members are skipped, not fatal.

use crate::mutate::{self, Path, Step};
use crate::refcbor::{self, Value};
use crate::reqmodel::*;
use crate::run::{bit, idx, CaseResult, Ctx, Fail, Gen, Obs};
use crate::util::{hex, text_of_len, Src};
use ctap_types::ctap2::Request;
use serde_json::json;

#[derive(Clone, Copy, Debug, PartialEq, Eq)]
pub enum Host {
    McOptions,
    McExtensions,
    McRp,
    McUser,
    McExcludeDescriptor,
    McParam,
    GaOptions,
    GaExtensions,
    GaAllowDescriptor,
    CmDescriptor,
    CmUser,
}

pub const HOSTS: [Host; 11] = [
    Host::McOptions,
    Host::McExtensions,
    Host::McRp,
    Host::McUser,
    Host::McExcludeDescriptor,
    Host::McParam,
    Host::GaOptions,
    Host::GaExtensions,
    Host::GaAllowDescriptor,
    Host::CmDescriptor,
    Host::CmUser,
];

impl Host {
    pub fn name(self) -> &'static str {
        match self {
            Host::McOptions => "MakeCredential.options",
            Host::McExtensions => "MakeCredential.extensions",
            Host::McRp => "MakeCredential.rp",
            Host::McUser => "MakeCredential.user",
            Host::McExcludeDescriptor => "MakeCredential.excludeList[]",
            Host::McParam => "MakeCredential.pubKeyCredParams[]",
            Host::GaOptions => "GetAssertion.options",
            Host::GaExtensions => "GetAssertion.extensions",
            Host::GaAllowDescriptor => "GetAssertion.allowList[]",
            Host::CmDescriptor => "CredentialManagement.credentialID",
            Host::CmUser => "CredentialManagement.user",
        }
    }
    pub fn cmd(self) -> u8 {
        match self {
            Host::GaOptions | Host::GaExtensions | Host::GaAllowDescriptor => CMD_GA,
            Host::CmDescriptor | Host::CmUser => CMD_CM,
            _ => CMD_MC,
        }
    }
    /// the member names this host map defines IN THE CONFIGURATION UNDER TEST (a feature-gated
    /// member is an unknown member where its feature is off)
    pub fn known_keys(self) -> &'static [&'static str] {
        let tpp = crate::respmodel::tpp();
        match self {
            Host::McOptions | Host::GaOptions => &["rk", "up", "uv"],
            Host::McExtensions => {
                if tpp {
                    &["credProtect", "hmac-secret", "largeBlobKey", "thirdPartyPayment"]
                } else {
                    &["credProtect", "hmac-secret", "largeBlobKey"]
                }
            }
            Host::GaExtensions => {
                if tpp {
                    &["hmac-secret", "largeBlobKey", "thirdPartyPayment"]
                } else {
                    &["hmac-secret", "largeBlobKey"]
                }
            }
            Host::McRp => &["id", "name", "icon", "url"],
            Host::McUser | Host::CmUser => &["id", "icon", "name", "displayName"],
            Host::McExcludeDescriptor | Host::GaAllowDescriptor | Host::CmDescriptor => &["id", "type"],
            Host::McParam => &["type", "alg"],
        }
    }
}

impl Host {
    /// names that a FIDO / WebAuthn specification registers for this kind of map and that the
    /// crate may adopt one day (used as unknown members only while the adoption probe says so)
    pub fn registered_elsewhere(self) -> &'static [&'static str] {
        match self {
            Host::McExtensions | Host::GaExtensions => {
                &["credBlob", "getCredBlob", "minPinLength", "credProps", "prf", "largeBlob", "uvm", "hmac-secret-mc", "thirdPartyPayment", "credProtect", "largeBlobKey", "hmac-secret"]
            }
            Host::McOptions | Host::GaOptions => &["ep", "alwaysUv", "plat", "clientPin"],
            Host::McExcludeDescriptor | Host::GaAllowDescriptor | Host::CmDescriptor => &["transports"],
            Host::McParam => &[],
            Host::McRp | Host::McUser | Host::CmUser => &[],
        }
    }
}

/// every member name some host map knows (plus the relying party's legacy alias and a descriptor
/// member of WebAuthn that the crate does not model): in any OTHER host these are unknown members,
/// and exactly the ones a shared lookup table would confuse
pub const ALL_MEMBER_NAMES: [&str; 16] =
    ["rk", "up", "uv", "credProtect", "hmac-secret", "largeBlobKey", "thirdPartyPayment", "id", "name", "icon", "url", "displayName", "type", "alg", "transports", "minPinLength"];

fn k(i: i64) -> Step {
    Step::Key(Value::int(i))
}

/// make sure the host map exists in the model and return its path
fn ensure_host(host: Host, model: &mut Value, src: &mut Src) -> Path {
    let mut info = Info::default();
    let ensure_top = |model: &mut Value, key: i64, make: &mut dyn FnMut() -> Value| {
        let m = model.as_map_mut().unwrap();
        if !m.iter().any(|(kk, _)| *kk == Value::int(key)) {
            m.push((Value::int(key), make()));
        }
    };
    match host {
        Host::McOptions => {
            ensure_top(model, 7, &mut || Value::Map(vec![]));
            vec![k(7)]
        }
        Host::McExtensions => {
            ensure_top(model, 6, &mut || Value::Map(vec![]));
            vec![k(6)]
        }
        Host::McRp => vec![k(2)],
        Host::McUser => vec![k(3)],
        Host::McExcludeDescriptor => {
            ensure_top(model, 5, &mut || Value::Array(vec![]));
            let a = match mutate::get_mut(model, &[k(5)]) {
                Some(Value::Array(a)) => a,
                _ => unreachable!(),
            };
            if a.is_empty() {
                a.push(gen_descriptor(src, &mut info));
            }
            let i = src.below(a.len());
            vec![k(5), Step::Index(i)]
        }
        Host::McParam => {
            let a = match mutate::get_mut(model, &[k(4)]) {
                Some(Value::Array(a)) => a,
                _ => unreachable!(),
            };
            if a.is_empty() {
                a.push(gen_param(src, &mut info));
            }
            let i = src.below(a.len());
            vec![k(4), Step::Index(i)]
        }
        Host::GaOptions => {
            ensure_top(model, 5, &mut || Value::Map(vec![]));
            vec![k(5)]
        }
        Host::GaExtensions => {
            ensure_top(model, 4, &mut || Value::Map(vec![]));
            vec![k(4)]
        }
        Host::GaAllowDescriptor => {
            ensure_top(model, 3, &mut || Value::Array(vec![]));
            let a = match mutate::get_mut(model, &[k(3)]) {
                Some(Value::Array(a)) => a,
                _ => unreachable!(),
            };
            if a.is_empty() {
                a.push(gen_descriptor(src, &mut info));
            }
            let i = src.below(a.len());
            vec![k(3), Step::Index(i)]
        }
        Host::CmDescriptor | Host::CmUser => {
            ensure_top(model, 2, &mut || Value::Map(vec![]));
            let sub = if host == Host::CmDescriptor { 2 } else { 3 };
            let m = match mutate::get_mut(model, &[k(2)]) {
                Some(Value::Map(m)) => m,
                _ => unreachable!(),
            };
            if !m.iter().any(|(kk, _)| *kk == Value::int(sub)) {
                let v = if sub == 2 { gen_descriptor(src, &mut info) } else { gen_user(src, &mut info, true, true, false) };
                m.push((Value::int(sub), v));
            }
            vec![k(2), k(sub)]
        }
    }
}

fn unknown_key(host: Host, src: &mut Src, used: &[Vec<u8>]) -> Value {
    let known = host.known_keys();
    for _ in 0..8 {
        let base = known[src.below(known.len())];
        let cand: String = match src.below(11) {
            0 => format!("{}x", base),
            1 => base[..base.len() - 1].to_string(),
            2 => {
                let mut c = base.chars();
                let f = c.next().unwrap();
                let flipped: String = if f.is_lowercase() { f.to_uppercase().collect() } else { f.to_lowercase().collect() };
                format!("{}{}", flipped, c.as_str())
            }
            3 => String::new(),
            4 => base.to_uppercase(),
            5 => format!(" {}", base),
            8 => {
                // the known name with NUL / whitespace padding (what a C string or a trimming helper loses)
                let pad = *src.pick(&["\0", "\0\0", "\t", "\n", "\u{a0}", "\u{200b}"]);
                if src.bool() {
                    format!("{}{}", base, pad)
                } else {
                    format!("{}{}", pad, base)
                }
            }
            7 => {
                // a name that another host map knows
                ALL_MEMBER_NAMES[src.below(ALL_MEMBER_NAMES.len())].to_string()
            }
            6 => {
                // another spelling convention of the same name: snake_case, kebab-case, PascalCase, lower
                let mut snake = String::new();
                for ch in base.chars() {
                    if ch.is_uppercase() {
                        snake.push('_');
                        snake.extend(ch.to_lowercase());
                    } else {
                        snake.push(ch);
                    }
                }
                match src.below(4) {
                    0 => snake,
                    1 => snake.replace('_', "-"),
                    2 => {
                        let mut c = base.chars();
                        match c.next() {
                            Some(f) => f.to_uppercase().collect::<String>() + c.as_str(),
                            None => String::new(),
                        }
                    }
                    _ => base.to_lowercase(),
                }
            }
            _ => {
                let n = src.range(1, 40);
                text_of_len(src, n)
            }
        };
        if !known.contains(&cand.as_str()) && !used.iter().any(|u| u == cand.as_bytes())
        {
            return Value::Text(cand.into_bytes());
        }
    }
    Value::Text(format!("unknown-{}", used.len()).into_bytes())
}

fn unknown_case(host: Host, src: &mut Src, obs: &mut Obs) -> CaseResult {
    let cmd = host.cmd();
    let mut info = Info::default();
    let mut model = refcbor::canonicalize(&gen_for(cmd, src, &mut info));
    let hp = ensure_host(host, &mut model, src);
    let model = refcbor::canonicalize(&model);
    // canonicalize may reorder list-free maps only; the host path stays valid (keys / indices)
    let base = {
        let mut m = vec![cmd];
        m.extend_from_slice(&refcbor::encode(&model));
        m
    };
    // the unknown members
    // usually 1-3 unknown members; sometimes so many that the map head widens (>= 24 entries)
    let n_unknown = if src.chance(1, 12) { *src.pick(&[12usize, 13, 14, 17, 24, 30]) } else { src.range(1, 3) };
    let mut members: Vec<(Value, Value)> = vec![];
    let mut used: Vec<Vec<u8>> = vec![];
    let mut container = false;
    let mut realistic = false;
    for _ in 0..n_unknown {
        let (mut kk, vv) = if src.chance(1, 5) {
            realistic = true;
            mutate::realistic_unknown(src)
        } else {
            let depth = *src.pick(&[0usize, 1, 2, 4, 8, 16]);
            (unknown_key(host, src, &used), mutate::any_value(src, depth))
        };
        // A name that some specification registers FOR THIS KIND OF MAP (extension identifiers in
        // extension maps, `transports` in a descriptor, further option ids in an options map) is
        // "unknown" only as long as the crate has not adopted it: if some value under the key is
        // ACCEPTED AND STORED (the decoded request changes), the crate knows the member by now and
        // the same value is sent under another key instead. A key whose values are merely refused
        // for some types while nothing is ever stored is not a member - refusing it is the violation.
        // Every candidate key (first choice and every replacement) goes through the same test.
        let mut tries = 0;
        loop {
            let name = kk.as_str().unwrap_or("").to_string();
            let clash = host.known_keys().contains(&name.as_str()) || used.iter().any(|u| Some(&u[..]) == kk.as_text());
            let mut adopted = false;
            if !clash && host.registered_elsewhere().contains(&name.as_str()) {
                for t in 0..7 {
                    let mut v = model.clone();
                    if let Some(Value::Map(m)) = mutate::get_mut(&mut v, &hp) {
                        m.push((kk.clone(), mutate::palette(t)));
                    }
                    let mut msg = vec![cmd];
                    msg.extend_from_slice(&refcbor::encode(&v));
                    let with = Request::deserialize(&msg);
                    if with.is_ok() && with != Request::deserialize(&base) {
                        adopted = true;
                    }
                }
                if adopted {
                    obs.label("registered-name:treated-as-known-member");
                }
            }
            if !clash && !adopted {
                break;
            }
            tries += 1;
            kk = if tries < 6 { unknown_key(host, src, &used) } else { Value::Text(format!("zz-made-up-{}-{}", used.len(), tries).into_bytes()) };
        }
        container |= vv.is_container_or_tag();
        used.push(kk.as_text().unwrap().to_vec());
        members.push((kk, vv));
    }
    obs.labelf(format!("host:{}", host.name()));
    if realistic {
        obs.label("realistic-extra");
    }
    let maxdepth = members.iter().map(|(_, v)| v.depth()).max().unwrap_or(0);
    obs.labelf(format!("unknown-depth:{}", if maxdepth >= 8 { ">=8" } else if maxdepth >= 1 { "1..7" } else { "0" }));
    for (_, v) in &members {
        obs.labelf(format!("unknown-type:{}", v.type_name()));
    }
    let host_len = mutate::get(&model, &hp).and_then(|m| m.as_map()).map(|m| m.len()).unwrap_or(0);
    let want = Request::deserialize(&base);
    if let Err(e) = &want {
        return Err(Fail::new(
            format!("C06:harness:base-rejected:0x{:02x}", *e as u8),
            "the request without unknown members was rejected (generator unsound)",
            json!({"input_hex": hex(&base)}),
        ));
    }
    // insert at every position
    for pos in 0..=host_len {
        let mut v = model.clone();
        if let Some(Value::Map(m)) = mutate::get_mut(&mut v, &hp) {
            for (j, e) in members.iter().enumerate() {
                m.insert(pos + j, e.clone());
            }
        }
        let mut msg = vec![cmd];
        msg.extend_from_slice(&refcbor::encode(&v));
        if msg.len() > 7609 {
            obs.excluded = true;
            continue;
        }
        let class = if pos == host_len { "position:last" } else if pos == 0 { "position:first" } else { "position:middle" };
        obs.sub(class, &[&msg]);
        if container || pos != host_len {
            obs.nontrivial(&[&msg]);
        }
        obs.case_with(|| json!({"host": host.name(), "position": pos, "input_hex": hex(&msg)}));
        let got = Request::deserialize(&msg);
        if got != want {
            let shown = match &got {
                Ok(_) => "a different request".to_string(),
                Err(e) => format!("status 0x{:02x}", *e as u8),
            };
            let types: Vec<&str> = members.iter().map(|(_, v)| v.type_name()).collect();
            let mut payload = (base.len() as u32).to_be_bytes().to_vec();
            payload.extend_from_slice(&base);
            payload.extend_from_slice(&msg);
            return Err(Fail::new(
                format!("C06:{}:{}:{}", host.name(), if got.is_ok() { "changed" } else { "rejected" }, types.join("+")),
                format!(
                    "unknown member(s) {} inserted into {} at position {} of {}: got {} instead of the same request",
                    members.iter().map(|(k, v)| format!("{}: {}", refcbor::show(k), refcbor::diag(v))).collect::<Vec<_>>().join(", "),
                    host.name(),
                    pos,
                    host_len,
                    shown
                ),
                json!({"host": host.name(), "position": pos, "with_unknown_hex": hex(&msg), "without_hex": hex(&base)}),
            )
            .with_concrete("c06_concrete", payload));
        }
    }
    obs.sample_with(|| {
        json!({"host": host.name(), "host_entries": host_len,
               "unknown": members.iter().map(|(k, v)| format!("{}: {}", refcbor::show(k), refcbor::diag(v))).collect::<Vec<_>>(),
               "positions_tried": host_len + 1})
    });
    Ok(())
}

macro_rules! host_gens {
    ($($f:ident, $c:ident, $n:expr, $h:expr;)*) => {
        $( fn $f(s: &mut Src, o: &mut Obs) -> CaseResult { unknown_case($h, s, o) }
           pub const $c: Gen = Gen { name: $n, f: $f }; )*
    };
}
host_gens! {
    h0, H0, "c06_mc_options", Host::McOptions;
    h1, H1, "c06_mc_extensions", Host::McExtensions;
    h2, H2, "c06_mc_rp", Host::McRp;
    h3, H3, "c06_mc_user", Host::McUser;
    h4, H4, "c06_mc_exclude", Host::McExcludeDescriptor;
    h5, H5, "c06_mc_param", Host::McParam;
    h6, H6, "c06_ga_options", Host::GaOptions;
    h7, H7, "c06_ga_extensions", Host::GaExtensions;
    h8, H8, "c06_ga_allow", Host::GaAllowDescriptor;
    h9, H9, "c06_cm_descriptor", Host::CmDescriptor;
    h10, H10, "c06_cm_user", Host::CmUser;
}

/// replay: payload = u32be(len(base)) || base || with-unknown
fn g_concrete(src: &mut Src, obs: &mut Obs) -> CaseResult {
    let p = crate::run::unpack_bytes(src);
    obs.label("concrete");
    if p.len() < 4 {
        return Ok(());
    }
    let n = u32::from_be_bytes([p[0], p[1], p[2], p[3]]) as usize;
    if p.len() < 4 + n {
        return Ok(());
    }
    let base = &p[4..4 + n];
    let msg = &p[4 + n..];
    obs.case_with(|| json!({"with_unknown_hex": hex(msg), "without_hex": hex(base)}));
    let want = Request::deserialize(base);
    let got = Request::deserialize(msg);
    if want != got {
        return Err(Fail::new(
            "C06:concrete:differs",
            "request with unknown members decodes differently from the one without",
            json!({"with_unknown_hex": hex(msg), "without_hex": hex(base)}),
        ));
    }
    Ok(())
}
pub const G_CONCRETE: Gen = Gen { name: "c06_concrete", f: g_concrete };

pub fn gens() -> Vec<Gen> {
    vec![H0, H1, H2, H3, H4, H5, H6, H7, H8, H9, H10, G_CONCRETE]
}

pub const RULE: &str = "A valid request from the C01 generator is made to contain the host map (options, MakeCredential/GetAssertion extensions, rp, user, a descriptor of the exclude/allow list or of CredentialManagement, a pubKeyCredParams entry, CredentialManagement user); 1-3 unknown text-keyed members (keys: known key + suffix, known key minus a character, case variants, leading space, empty, random text; never a known key or alias) are inserted at EVERY position of the host map (enumerated per case). Values: the full definite-length CBOR grammar (uint, nint, bytes, text, arrays, maps with arbitrary key types, tags, f16/f32/f64, false/true/null/undefined, one- and two-byte simple values), nesting depth up to 16, shortest heads, message <= 7609 bytes; plus realistic extras (transports, credBlob, minPinLength, credProps, hmac-secret-mc, prf, getCredBlob, uvm). Oracle (metamorphic): Request::deserialize(with unknown) == Request::deserialize(without), both Ok. Non-trivial: the unknown value is a container or tag, or the member is not in last position; distinct by message bytes. Evaluations count insertion positions.";
pub const ASSUMPTIONS: &[&str] = &[
    "unknown values use shortest-form heads: C05 requires non-minimal encodings to be rejected, so nothing is asserted for them here",
    "unknown keys are text; duplicate unknown keys are not generated",
];

pub fn run(ctx: &mut Ctx) {
    let per = ctx.t(8_000, 120_000);
    let _ = (bit(true), idx(0, 1));
    for g in [H0, H1, H2, H3, H4, H5, H6, H7, H8, H9, H10] {
        ctx.random(&g, &[], per, 1400);
        if ctx.too_many() {
            return;
        }
    }
    let mut req: Vec<String> = HOSTS.iter().map(|h| format!("host:{}", h.name())).collect();
    for t in ["uint", "nint", "bytes", "text", "array", "map", "bool", "null", "undefined", "simple", "tag", "float"] {
        req.push(format!("unknown-type:{}", t));
    }
    for l in ["position:first", "position:middle", "position:last", "realistic-extra", "unknown-depth:>=8"] {
        req.push(l.to_string());
    }
    let r: Vec<&str> = req.iter().map(|s| s.as_str()).collect();
    ctx.require(&r);
}
