//! C05 — rejected CTAP2 requests report exactly the status code their fault calls for.

use crate::mutate::{self, Path, Step};
use crate::props::c04;
use crate::refcbor::{self, HeadFault, Value};
use crate::reqmodel::*;
use crate::run::{bit, CaseResult, Ctx, Fail, Gen, Obs};
use crate::util::{hex, Src};
use serde_json::json;

const INVALID_COMMAND: u8 = 0x01;
const INVALID_CBOR: u8 = 0x12;
const MISSING_PARAMETER: u8 = 0x14;

fn expect(
    class: &str,
    detail: String,
    cmd: u8,
    msg: &[u8],
    want: u8,
    obs: &mut Obs,
) -> CaseResult {
    obs.sub(&format!("fault:{}", class), &[class.as_bytes(), msg]);
    obs.case_with(|| json!({"fault_class": class, "fault": detail, "input_hex": hex(msg)}));
    let got = c04::status_of(msg);
    if got != Some(want) {
        let mut payload = vec![want];
        payload.extend_from_slice(msg);
        let shown = got.map(|s| format!("0x{:02x}", s)).unwrap_or("accepted".into());
        // keep only the structural part of the detail in the signature
        let sigd = strip_indices(detail.split(" = ").next().unwrap_or(&detail));
        return Err(Fail::new(
            format!("C05:{}:{}:{}:got-{}", cmd_name(cmd), class, sigd, shown),
            format!("{} request with fault [{}: {}] gave {} instead of 0x{:02x}", cmd_name(cmd), class, detail, shown, want),
            json!({"command": cmd_name(cmd), "fault_class": class, "fault": detail, "expected_status": format!("0x{:02x}", want), "observed": shown, "input_hex": hex(msg)}),
        )
        .with_concrete("c05_concrete", payload));
    }
    Ok(())
}

fn msg_of(cmd: u8, v: &Value) -> Vec<u8> {
    let mut m = vec![cmd];
    m.extend_from_slice(&refcbor::encode(v));
    m
}

fn is_signed(cmd: u8, p: &Path) -> bool {
    if let Some(Step::Key(Value::Text(t))) = p.last() {
        if t == b"alg" {
            return true;
        }
    }
    let cose_at = |prefix: &[Step]| -> bool {
        p.len() == prefix.len() + 1
            && p[..prefix.len()] == *prefix
            && matches!(p.last(), Some(Step::Key(k)) if matches!(k.as_int(), Some(1) | Some(3) | Some(-1)))
    };
    match cmd {
        CMD_CP => cose_at(&[Step::Key(Value::int(3))]),
        CMD_GA => cose_at(&[Step::Key(Value::int(4)), Step::Key(Value::text("hmac-secret")), Step::Key(Value::int(1))]),
        _ => false,
    }
}

/// Apply every single fault of every class to one well-formed seed.
pub fn all_single_faults(cmd: u8, seed: &Value, obs: &mut Obs) -> CaseResult {
    let seed = refcbor::canonicalize(seed);
    let base = msg_of(cmd, &seed);
    // the seed itself must be accepted (otherwise the generator is unsound for this property)
    if let Some(s) = c04::status_of(&base) {
        return Err(Fail::new(
            format!("C05:{}:seed-rejected:0x{:02x}", cmd_name(cmd), s),
            format!("well-formed seed message rejected with 0x{:02x}", s),
            json!({"input_hex": hex(&base), "model": refcbor::diag(&seed)}),
        ));
    }
    // 1. remove one required member
    for (p, k) in required_members(cmd, &seed) {
        let mut v = seed.clone();
        if let Some(Value::Map(m)) = mutate::get_mut(&mut v, &p) {
            m.retain(|(k2, _)| *k2 != k);
        }
        let d = format!("remove {}/{}", mutate::path_string(&p), refcbor::show(&k));
        expect("missing-required", d, cmd, &msg_of(cmd, &v), MISSING_PARAMETER, obs)?;
    }
    // 2. truncate at every offset
    for cut in 0..base.len() {
        expect("truncate", format!("cut at offset = {}", cut), cmd, &base[..cut], INVALID_CBOR, obs)?;
    }
    // 3. duplicate each key of each map (adjacent copy, count + 1)
    for mp in mutate::maps(&seed) {
        let n = mutate::get(&seed, &mp).and_then(|m| m.as_map()).map(|m| m.len()).unwrap_or(0);
        for i in 0..n {
            let mut v = seed.clone();
            let mut key = Value::Null;
            if let Some(Value::Map(m)) = mutate::get_mut(&mut v, &mp) {
                let e = m[i].clone();
                key = e.0.clone();
                m.insert(i, e);
            }
            let d = format!("duplicate {}/{}", mutate::path_string(&mp), refcbor::show(&key));
            expect("duplicate-key", d, cmd, &msg_of(cmd, &v), INVALID_CBOR, obs)?;
            // the same key twice where the FIRST occurrence holds null (for an optional member null
            // reads as "absent", which must not make the decoder forget that it has seen the key)
            let mut v = seed.clone();
            if let Some(Value::Map(m)) = mutate::get_mut(&mut v, &mp) {
                let k = m[i].0.clone();
                m.insert(i, (k, Value::Null));
            }
            let d = format!("duplicate (first occurrence null) {}/{}", mutate::path_string(&mp), refcbor::show(&key));
            expect("duplicate-key:null-first", d, cmd, &msg_of(cmd, &v), INVALID_CBOR, obs)?;
        }
    }
    // 4. + 5. every head re-encoded in each wider width; every container made indefinite
    let heads = refcbor::heads(&seed);
    for (idx, (major, arg)) in heads.iter().enumerate() {
        for width in [1u8, 2, 4, 8] {
            let (b, applied) = refcbor::encode_fault(&seed, HeadFault::Wider { idx, width });
            if !applied {
                continue;
            }
            let mut m = vec![cmd];
            m.extend_from_slice(&b);
            let d = format!("head #{} (major {}, argument {}) in {} bytes = {}", idx, major, arg, width, idx);
            expect(&format!("non-minimal:major{}", major), d, cmd, &m, INVALID_CBOR, obs)?;
        }
        if (2..=5).contains(major) {
            let (b, applied) = refcbor::encode_fault(&seed, HeadFault::Indefinite { idx });
            if applied {
                let mut m = vec![cmd];
                m.extend_from_slice(&b);
                let d = format!("head #{} (major {}) indefinite = {}", idx, major, idx);
                expect(&format!("indefinite:major{}", major), d, cmd, &m, INVALID_CBOR, obs)?;
            }
        }        // reserved additional information (28..30; 31 where no indefinite form exists): not CBOR
        for ai in 28u8..=31 {
            let (b, applied) = refcbor::encode_fault(&seed, HeadFault::Reserved { idx, ai });
            if applied {
                let mut m = vec![cmd];
                m.extend_from_slice(&b);
                let d = format!("head #{} (major {}) with additional information {} = {}", idx, major, ai, idx);
                expect(&format!("reserved-head:major{}", major), d, cmd, &m, INVALID_CBOR, obs)?;
            }
        }
    }
    // 6. each member's value replaced by a value of every other data type
    for p in mutate::walk(&seed) {
        if p.is_empty() {
            continue;
        }
        let orig = mutate::get(&seed, &p).unwrap();
        let own = mutate::palette_type(orig);
        for t in 0..7 {
            if Some(t) == own {
                continue;
            }
            if is_signed(cmd, &p) && (t == 0 || t == 1) {
                // sign changes of signed-integer members are not faults
                continue;
            }
            let mut v = seed.clone();
            *mutate::get_mut(&mut v, &p).unwrap() = mutate::palette(t);
            let d = format!("{} <- {}", mutate::path_string(&p), mutate::TYPE_PALETTE[t]);
            expect(&format!("wrong-type:{}", mutate::TYPE_PALETTE[t]), d, cmd, &msg_of(cmd, &v), INVALID_CBOR, obs)?;
        }
    }
    // 6b. stray bytes after the parameter map: whatever the decoder makes of them (the CBOR
    // decoder ignores trailing data), a rejection must use one of the three codes
    for tail in [&[0x00u8][..], &[0xFF], &[0x01, 0x02, 0x03], &[0xA0], &[0x00, 0x00, 0x00, 0x00, 0x07]] {
        let mut m = base.clone();
        m.extend_from_slice(tail);
        obs.sub("fault:trailing-bytes", &[b"trailing", &m]);
        if let Some(st) = c04::status_of(&m) {
            if st != 0x01 && st != 0x12 && st != 0x14 {
                let mut payload = vec![0x12];
                payload.extend_from_slice(&m);
                return Err(Fail::new(
                    format!("C05:{}:trailing-bytes:status-outside-set:0x{:02x}", cmd_name(cmd), st),
                    format!("{} request followed by {} stray byte(s) was rejected with 0x{:02x}, which is none of 0x01/0x12/0x14", cmd_name(cmd), tail.len(), st),
                    json!({"input_hex": hex(&m)}),
                ));
            }
        }
    }
    // 7. each bounded member pushed one past its limit
    for b in bounds().iter().filter(|b| b.cmd == cmd && !b.lossy_drop) {
        let Some(node) = mutate::get(&seed, &b.path) else { continue };
        let over: Vec<Value> = match b.kind {
            BoundKind::BytesLen(c) => vec![Value::Bytes(vec![0xA5; c + 1])],
            BoundKind::TextLen(c) => vec![Value::Text(vec![b'a'; c + 1])],
            BoundKind::ListLen(c) => {
                let filler = node
                    .as_array()
                    .and_then(|a| a.first().cloned())
                    .unwrap_or(Value::Map(vec![(Value::text("id"), Value::Bytes(vec![1])), (Value::text("type"), Value::text("public-key"))]));
                vec![Value::Array(vec![filler; c + 1])]
            }
            BoundKind::UintMax(m) => vec![Value::Uint(m + 1)],
            BoundKind::I32 => vec![Value::Uint(1 << 31), Value::Nint(1 << 31)],
            BoundKind::BytesExact(c) => vec![Value::Bytes(vec![0xA5; c + 1]), Value::Bytes(vec![0xA5; c - 1])],
        };
        for o in over {
            let mut v = seed.clone();
            *mutate::get_mut(&mut v, &b.path).unwrap() = o.clone();
            let d = format!("{} one past its limit = {}", b.name, refcbor::show(&o));
            expect("over-limit", d, cmd, &msg_of(cmd, &v), INVALID_CBOR, obs)?;
        }
    }
    Ok(())
}

/// Two faults at once: a parameter map that omits required parameters AND is malformed at the
/// CBOR level. The statement assigns 0x14 to "an otherwise well-formed parameter map that omits a
/// required parameter", so the malformed one must report 0x12 (the decoder cannot know what is
/// missing before it has read the map, and reading fails first).
pub fn malformed_and_incomplete(cmd: u8, seed: &Value, obs: &mut Obs) -> CaseResult {
    let seed = refcbor::canonicalize(seed);
    let Value::Map(entries) = &seed else { return Ok(()) };
    let req_top: Vec<Value> = required_members(cmd, &seed).into_iter().filter(|(p, _)| p.is_empty()).map(|(_, k)| k).collect();
    if req_top.is_empty() {
        return Ok(());
    }
    for j in 0..req_top.len() {
        for only_required in [true, false] {
            let keep = &req_top[..j];
            let reduced: Vec<(Value, Value)> =
                entries.iter().filter(|(k, _)| if req_top.contains(k) { keep.contains(k) } else { !only_required }).cloned().collect();
            if !only_required && reduced.len() == j {
                continue; // no optional member present: same as the previous variant
            }
            let r = Value::Map(reduced);
            let base = msg_of(cmd, &r);
            let what = format!("{} of {} required kept{}", j, req_top.len(), if only_required { "" } else { " + optional members" });
            expect("incomplete", format!("well-formed, {}", what), cmd, &base, MISSING_PARAMETER, obs)?;
            for cut in 1..base.len() {
                expect("incomplete+truncate", format!("{}; cut at offset = {}", what, cut), cmd, &base[..cut], INVALID_CBOR, obs)?;
            }
            let n = r.as_map().map(|m| m.len()).unwrap_or(0);
            for i in 0..n {
                let mut v = r.clone();
                if let Value::Map(m) = &mut v {
                    let e = m[i].clone();
                    m.insert(i, e);
                }
                expect("incomplete+duplicate-key", format!("{}; entry = {}", what, i), cmd, &msg_of(cmd, &v), INVALID_CBOR, obs)?;
            }
            let heads = refcbor::heads(&r);
            for (idx, (major, _)) in heads.iter().enumerate() {
                for width in [1u8, 2, 4, 8] {
                    let (b, applied) = refcbor::encode_fault(&r, HeadFault::Wider { idx, width });
                    if !applied {
                        continue;
                    }
                    let mut m = vec![cmd];
                    m.extend_from_slice(&b);
                    expect("incomplete+non-minimal", format!("{}; head = {} width {}", what, idx, width), cmd, &m, INVALID_CBOR, obs)?;
                }
                if (2..=5).contains(major) {
                    let (b, applied) = refcbor::encode_fault(&r, HeadFault::Indefinite { idx });
                    if applied {
                        let mut m = vec![cmd];
                        m.extend_from_slice(&b);
                        expect("incomplete+indefinite", format!("{}; head = {}", what, idx), cmd, &m, INVALID_CBOR, obs)?;
                    }
                }
            }
            for p in mutate::walk(&r) {
                if p.is_empty() {
                    continue;
                }
                let own = mutate::palette_type(mutate::get(&r, &p).unwrap());
                for t in 0..7 {
                    if Some(t) == own || (is_signed(cmd, &p) && (t == 0 || t == 1)) {
                        continue;
                    }
                    let mut v = r.clone();
                    *mutate::get_mut(&mut v, &p).unwrap() = mutate::palette(t);
                    expect("incomplete+wrong-type", format!("{}; {} <- {}", what, mutate::path_string(&p), mutate::TYPE_PALETTE[t]), cmd, &msg_of(cmd, &v), INVALID_CBOR, obs)?;
                }
            }
        }
    }
    Ok(())
}

fn seed_case(cmd: u8, src: &mut Src, obs: &mut Obs) -> CaseResult {
    let mut info = Info::default();
    let seed = gen_for(cmd, src, &mut info);
    obs.label(cmd_name(cmd));
    let r = all_single_faults(cmd, &seed, obs).and_then(|_| malformed_and_incomplete(cmd, &seed, obs));
    let n = obs.sub_evals;
    obs.sample_with(|| json!({"command": cmd_name(cmd), "seed": refcbor::diag(&seed), "single_faults_applied": n}));
    r
}

fn g_mc(s: &mut Src, o: &mut Obs) -> CaseResult {
    seed_case(CMD_MC, s, o)
}
fn g_ga(s: &mut Src, o: &mut Obs) -> CaseResult {
    seed_case(CMD_GA, s, o)
}
fn g_cp(s: &mut Src, o: &mut Obs) -> CaseResult {
    seed_case(CMD_CP, s, o)
}
fn g_cm(s: &mut Src, o: &mut Obs) -> CaseResult {
    seed_case(CMD_CM, s, o)
}
fn g_cm41(s: &mut Src, o: &mut Obs) -> CaseResult {
    seed_case(CMD_CM_PREVIEW, s, o)
}
fn g_lb(s: &mut Src, o: &mut Obs) -> CaseResult {
    seed_case(CMD_LB, s, o)
}

/// 7b. malformed encodings INSIDE the value of an unknown member (which the decoder only skips):
/// reserved additional information, wider-than-needed heads, indefinite forms, lying lengths. The
/// statement constrains the status of rejected requests: whatever the skipper rejects is
/// malformed CBOR and must be reported as 0x12.
fn g_unknown_malformed(src: &mut Src, obs: &mut Obs) -> CaseResult {
    let Some((cmd, msgs)) = c04::unknown_fault_messages(src) else {
        return Ok(());
    };
    obs.label(cmd_name(cmd));
    for (name, msg) in msgs {
        obs.sub(&format!("fault:unknown-member-value:{}", name), &[name.as_bytes(), &msg]);
        obs.case_with(|| json!({"fault_class": "unknown-member-value", "fault": name, "input_hex": hex(&msg)}));
        if let Some(st) = c04::status_of(&msg) {
            if st != INVALID_CBOR {
                let mut payload = vec![INVALID_CBOR];
                payload.extend_from_slice(&msg);
                return Err(Fail::new(
                    format!("C05:{}:unknown-member-value:{}:got-0x{:02x}", cmd_name(cmd), name, st),
                    format!("{} request with a malformed encoding ({}) inside an unknown member's value was rejected with 0x{:02x} instead of 0x12", cmd_name(cmd), name, st),
                    json!({"input_hex": hex(&msg)}),
                )
                .with_concrete("c05_concrete", payload));
            }
        }
    }
    Ok(())
}
pub const G_UNKNOWN_MALFORMED: Gen = Gen { name: "c05_unknown_malformed", f: g_unknown_malformed };

/// 8. all 256 command bytes with empty / valid / random payload. words: [cmd (raw), payload kind, ...]
fn g_cmdbyte(src: &mut Src, obs: &mut Obs) -> CaseResult {
    let b = (src.word() & 0xFF) as u8;
    let kind = src.below(4);
    let payload: Vec<u8> = match kind {
        0 => vec![],
        1 => {
            let mut i = Info::default();
            let c = PARAM_CMDS[src.below(PARAM_CMDS.len())];
            refcbor::encode_canonical(&gen_for(c, src, &mut i))
        }
        2 => {
            let n = src.range(1, 40);
            src.bytes(n)
        }
        _ => vec![0xA0],
    };
    let mut msg = vec![b];
    msg.extend_from_slice(&payload);
    // specification: assigned and supported by this crate
    let supported = matches!(b, 0x01 | 0x02 | 0x04 | 0x06 | 0x07 | 0x08 | 0x0A | 0x0B | 0x0C | 0x41) || (0x42..=0x7F).contains(&b);
    obs.labelf(format!("cmdbyte:{}", if supported { "supported" } else { "unassigned-or-unsupported" }));
    if !supported {
        obs.nontrivial(&[&msg]);
        return expect("command-byte", format!("command byte 0x{:02x} = {}", b, b), b, &msg, INVALID_COMMAND, obs);
    }
    // supported: whatever happens must stay within the three codes
    let st = c04::check_input(&msg, obs)?;
    if st == Some(INVALID_COMMAND) {
        return Err(Fail::new(
            format!("C05:command-byte:0x{:02x}:supported-but-0x01", b),
            format!("supported command byte 0x{:02x} reported InvalidCommand", b),
            json!({"input_hex": hex(&msg)}),
        ));
    }
    Ok(())
}

/// 10. a message lacking a required parameter is never accepted, whatever else is wrong with it
fn g_lacking(src: &mut Src, obs: &mut Obs) -> CaseResult {
    let cmd = PARAM_CMDS[src.below(PARAM_CMDS.len())];
    let mut info = Info::default();
    let mut v = refcbor::canonicalize(&gen_for(cmd, src, &mut info));
    let req: Vec<(Path, Value)> = required_members(cmd, &v).into_iter().filter(|(p, _)| p.is_empty()).collect();
    let (_, key) = req[src.below(req.len())].clone();
    v.as_map_mut().unwrap().retain(|(k, _)| *k != key);
    let n = src.below(3);
    let mut labels = vec![];
    for _ in 0..n {
        if let Some(l) = mutate::mutate_tree(&mut v, src, c04::MAX_MSG) {
            labels.push(l);
        }
    }
    // the other faults must not have re-introduced the key
    let still_lacking = v.as_map().map(|m| !m.iter().any(|(k, _)| *k == key)).unwrap_or(false);
    if !still_lacking {
        obs.excluded = true;
        return Ok(());
    }
    let mut msg = msg_of(cmd, &v);
    msg.truncate(c04::MAX_MSG);
    obs.label("lacking-required");
    obs.labelf(format!("lacking:{}+{}faults", cmd_name(cmd), labels.len()));
    obs.nontrivial(&[&msg]);
    obs.case_with(|| json!({"input_hex": hex(&msg)}));
    obs.sample_with(|| json!({"command": cmd_name(cmd), "removed": refcbor::show(&key), "other_faults": labels, "len": msg.len()}));
    match c04::status_of(&msg) {
        None => Err(Fail::new(
            format!("C05:{}:lacking-required-accepted:{}", cmd_name(cmd), refcbor::show(&key)),
            format!("{} request without required parameter {} was accepted", cmd_name(cmd), refcbor::show(&key)),
            json!({"input_hex": hex(&msg), "removed": refcbor::show(&key), "other_faults": labels}),
        )),
        Some(s) if s != 0x01 && s != 0x12 && s != 0x14 => Err(Fail::new(
            format!("C05:status-outside-set:0x{:02x}", s),
            format!("status 0x{:02x} outside the three-element set", s),
            json!({"input_hex": hex(&msg)}),
        )),
        Some(_) => Ok(()),
    }
}

/// generator-independent replay: payload = expected status byte || message
fn g_concrete(src: &mut Src, obs: &mut Obs) -> CaseResult {
    let p = crate::run::unpack_bytes(src);
    obs.label("concrete");
    if p.is_empty() {
        return Ok(());
    }
    let want = p[0];
    let msg = &p[1..];
    let cmd = msg.first().copied().unwrap_or(0);
    expect("concrete", "replayed input".into(), cmd, msg, want, obs)
}

pub const G_MC: Gen = Gen { name: "c05_mc", f: g_mc };
pub const G_GA: Gen = Gen { name: "c05_ga", f: g_ga };
pub const G_CP: Gen = Gen { name: "c05_cp", f: g_cp };
pub const G_CM: Gen = Gen { name: "c05_cm", f: g_cm };
pub const G_CM41: Gen = Gen { name: "c05_cm41", f: g_cm41 };
pub const G_LB: Gen = Gen { name: "c05_lb", f: g_lb };
pub const G_CMDBYTE: Gen = Gen { name: "c05_cmdbyte", f: g_cmdbyte };
pub const G_LACKING: Gen = Gen { name: "c05_lacking", f: g_lacking };
pub const G_CONCRETE: Gen = Gen { name: "c05_concrete", f: g_concrete };

pub fn gens() -> Vec<Gen> {
    vec![G_MC, G_GA, G_CP, G_CM, G_CM41, G_LB, G_CMDBYTE, G_LACKING, G_UNKNOWN_MALFORMED, G_CONCRETE]
}

pub const RULE: &str = "Seeds: for every parameter-bearing command the minimal message (no optional member), the full message (every optional member) and proptest-generated well-formed messages from the C01 generator (known members only, canonical). Every seed is crossed with EVERY single fault of each class, enumerated on the value tree / byte string (no sampling within a seed): removal of each required parameter and required nested member -> 0x14; truncation at every byte offset -> 0x12; each key of each map duplicated (as is, and with null as the first occurrence) -> 0x12; each head re-encoded in each wider width -> 0x12; each string/array/map made indefinite-length -> 0x12; each head given a reserved additional-information value (28..30, and 31 for integers) -> 0x12; each member's value replaced by a representative of every other data type among unsigned/negative/bytes/text/array/map/boolean (sign changes of signed-integer members and null not asserted) -> 0x12; each bounded member one past its limit (documented lossy members excluded) -> 0x12; stray bytes appended after the parameter map -> if rejected at all, one of the three codes; two faults at once - the map reduced to its first j required parameters (with and without its optional members; by itself 0x14) and additionally truncated at every offset / each key duplicated / each head widened or made indefinite / each remaining value replaced by another type -> 0x12, because 0x14 is reserved for an otherwise well-formed map. Plus well-formed requests with one unknown member in a nested map whose value is malformed at the encoding level (each head in turn: reserved additional information, wider form, indefinite form, lying length): if the value skipper rejects it, the status must be 0x12. Plus all 256 command bytes x 4 payload kinds (unassigned/unsupported -> 0x01), and messages lacking a required parameter combined with up to two further structural faults (never accepted; status within the three codes). Every fault case is non-trivial by construction; distinct by (fault class, faulted message bytes). The evaluation count is the number of fault cases executed, not the number of seeds.";
pub const ASSUMPTIONS: &[&str] = &[
    "required-member and limit tables (reqmodel.rs) transcribe the CTAP specification / the C12 statement",
    "seed messages contain known members only, so every head is interpreted (not skipped) by the decoder",
    "the fixed type palette (7, -7, h'0102', \"x\", [1,2], {}, true) represents 'a value of another data type'",
];

pub fn run(ctx: &mut Ctx) {
    let seeds = ctx.t(200, 4_000);
    for cmd in PARAM_CMDS {
        let g = match cmd {
            CMD_MC => G_MC,
            CMD_GA => G_GA,
            CMD_CP => G_CP,
            CMD_CM => G_CM,
            CMD_CM_PREVIEW => G_CM41,
            _ => G_LB,
        };
        let nbits = top_bits(cmd) + nested_bits(cmd);
        // minimal and full seeds (values by proptest), then free seeds
        ctx.random(&g, &vec![bit(false); nbits], ctx.t(4, 40), 1024);
        ctx.random(&g, &vec![bit(true); nbits], ctx.t(6, 60), 1024);
        ctx.random(&g, &[], seeds, 1024);
        if ctx.too_many() {
            return;
        }
    }
    // all 256 command bytes x payload kinds: exhaustive over (byte, kind)
    let g = G_CMDBYTE;
    for b in 0..256u32 {
        for k in 0..4 {
            ctx.random(&g, &[b, crate::run::idx(k, 4)], ctx.t(2, 20), 600);
        }
    }
    ctx.exhaustive.push("all 256 command bytes x 4 payload kinds".into());
    ctx.random(&G_LACKING, &[], ctx.t(6_000, 300_000), 1200);
    ctx.random(&G_UNKNOWN_MALFORMED, &[], ctx.t(3_000, 100_000), 900);
    ctx.require(&[
        "fault:missing-required", "fault:truncate", "fault:duplicate-key", "fault:non-minimal:major0", "fault:non-minimal:major2",
        "fault:non-minimal:major3", "fault:non-minimal:major4", "fault:non-minimal:major5", "fault:indefinite:major2",
        "fault:indefinite:major3", "fault:indefinite:major4", "fault:indefinite:major5", "fault:wrong-type:unsigned",
        "fault:wrong-type:negative", "fault:wrong-type:bytes", "fault:wrong-type:text", "fault:wrong-type:array",
        "fault:wrong-type:map", "fault:wrong-type:boolean", "fault:over-limit", "fault:reserved-head:major0", "fault:reserved-head:major2", "fault:reserved-head:major3", "fault:reserved-head:major5", "fault:incomplete+truncate", "fault:unknown-member-value:Reserved", "fault:incomplete+wrong-type", "fault:incomplete+duplicate-key", "fault:incomplete+non-minimal", "fault:trailing-bytes", "fault:command-byte", "lacking-required",
        "MakeCredential", "GetAssertion", "ClientPin", "CredentialManagement", "CredentialManagement(0x41)", "LargeBlobs",
    ]);
}
