//! C14 — algorithm and attestation-format lists are filtered in order, never rejected.

use crate::refcbor::{self, Value};
use crate::reqmodel::*;
use crate::run::{idx, CaseResult, Ctx, Fail, Gen, Obs};
use crate::util::{hex, text_of_len, Src};
use ctap_types::ctap2::Request;
use ctap_types::serde::cbor_deserialize;
use ctap_types::webauthn::FilteredPublicKeyCredentialParameters;
use serde_json::json;

fn ks(k: &str, v: Value) -> (Value, Value) {
    (Value::text(k), v)
}

fn mc_with(params: &Value, formats: Option<&Value>) -> Vec<u8> {
    let mut m = vec![
        (Value::int(1), Value::Bytes(vec![7; 32])),
        (Value::int(2), Value::Map(vec![ks("id", Value::text("example.org"))])),
        (Value::int(3), Value::Map(vec![ks("id", Value::Bytes(vec![1]))])),
        (Value::int(4), params.clone()),
        // members behind the list: a decoder that leaves part of the list unread trips over them
        (Value::int(7), Value::Map(vec![ks("rk", Value::Bool(true))])),
        (Value::int(9), Value::Uint(1)),
    ];
    if let Some(f) = formats {
        m.push((Value::int(11), f.clone()));
    }
    message(CMD_MC, &Value::Map(m))
}

fn ga_with(formats: &Value) -> Vec<u8> {
    message(
        CMD_GA,
        &Value::Map(vec![(Value::int(1), Value::text("example.org")), (Value::int(2), Value::Bytes(vec![7; 32])), (Value::int(9), formats.clone())]),
    )
}

fn check_params_list(list: &Value, obs: &mut Obs) -> CaseResult {
    let want = spec_filter_params(list).map_err(|e| Fail::new("C14:harness", e, json!({})))?;
    let n = list.as_array().map(|a| a.len()).unwrap_or(0);
    let dropped = n - want.len();
    if dropped > 0 && !want.is_empty() {
        obs.nontrivial(&[&refcbor::encode(list)]);
    }
    obs.labelf(format!("params:len{}", if n > 12 { ">12".to_string() } else if n > 6 { "7..12".into() } else { n.to_string() }));
    let enc = refcbor::encode(list);
    obs.case_with(|| json!({"params_hex": hex(&enc)}));
    let fail = |path: &str, got: String| {
        Fail::new(
            format!("C14:params:{}", path),
            format!("{}: parameter list {} -> {}, expected algs {:?}", path, refcbor::diag(list), got, want),
            json!({"path": path, "list_hex": hex(&enc), "expected": want}),
        )
        .with_concrete("c14_params", enc.clone())
    };
    // stand-alone
    obs.sub("path:stand-alone", &[b"s", &enc]);
    match cbor_deserialize::<FilteredPublicKeyCredentialParameters>(&enc) {
        Ok(f) => {
            let g: Vec<i32> = f.0.iter().map(|k| k.alg).collect();
            if g != want {
                return Err(fail("stand-alone", format!("{:?}", g)));
            }
        }
        Err(e) => return Err(fail("stand-alone", format!("rejected {:?}", e))),
    }
    // MakeCredential key 4
    obs.sub("path:MakeCredential.4", &[b"m", &enc]);
    match Request::deserialize(&mc_with(list, None)) {
        Ok(Request::MakeCredential(r)) => {
            let g: Vec<i32> = r.pub_key_cred_params.0.iter().map(|k| k.alg).collect();
            if g != want {
                return Err(fail("MakeCredential", format!("{:?}", g)));
            }
        }
        Ok(_) => return Err(fail("MakeCredential", "wrong variant".into())),
        Err(e) => return Err(fail("MakeCredential", format!("rejected 0x{:02x}", e as u8))),
    }
    // GetInfo member 0x0A, decode side
    let gi = Value::Map(vec![(Value::int(1), Value::Array(vec![])), (Value::int(3), Value::Bytes(vec![0; 16])), (Value::int(10), list.clone())]);
    obs.sub("path:GetInfo.0x0A", &[b"g", &enc]);
    match cbor_deserialize::<ctap_types::ctap2::get_info::Response>(&refcbor::encode(&gi)) {
        Ok(r) => {
            let g: Vec<i32> = r.algorithms.map(|a| a.0.iter().map(|k| k.alg).collect()).unwrap_or_default();
            if g != want {
                return Err(fail("GetInfo.algorithms", format!("{:?}", g)));
            }
        }
        Err(e) => return Err(fail("GetInfo.algorithms", format!("rejected {:?}", e))),
    }
    Ok(())
}

pub fn check_formats_list(list: &Value, obs: &mut Obs) -> CaseResult {
    let (known, unknown) = spec_filter_formats(list).map_err(|e| Fail::new("C14:harness", e, json!({})))?;
    let n = list.as_array().map(|a| a.len()).unwrap_or(0);
    if n > known.len() && !known.is_empty() {
        obs.nontrivial(&[&refcbor::encode(list)]);
    }
    obs.labelf(format!("formats:len{}", if n > 5 { ">5".to_string() } else { n.to_string() }));
    let enc = refcbor::encode(list);
    obs.case_with(|| json!({"formats_hex": hex(&enc)}));
    for (path, msg) in [("MakeCredential.0x0B", mc_with(&Value::Array(vec![]), Some(list))), ("GetAssertion.9", ga_with(list))] {
        obs.sub(&format!("path:{}", path), &[path.as_bytes(), &enc]);
        let r = Request::deserialize(&msg);
        let pref = match &r {
            Ok(Request::MakeCredential(r)) => r.attestation_formats_preference.as_ref(),
            Ok(Request::GetAssertion(r)) => r.attestation_formats_preference.as_ref(),
            _ => None,
        };
        let ok = check_formats(path, Some(list), pref);
        if let Err(m) = ok {
            let extra = match &r {
                Err(e) => format!(" (request rejected with 0x{:02x})", *e as u8),
                _ => String::new(),
            };
            return Err(Fail::new(
                format!("C14:formats:{}", path),
                format!("{} -> {}{}; expected known={:?} unknown={}", refcbor::diag(list), m, extra, known, unknown),
                json!({"path": path, "list_hex": hex(&enc)}),
            )
            .with_concrete("c14_formats", enc.clone()));
        }
    }
    Ok(())
}

fn param_symbol(i: usize) -> Value {
    match i {
        0 => Value::Map(vec![ks("alg", Value::int(-7)), ks("type", Value::text("public-key"))]),
        1 => Value::Map(vec![ks("alg", Value::int(-8)), ks("type", Value::text("public-key"))]),
        2 => Value::Map(vec![ks("alg", Value::int(-257)), ks("type", Value::text("public-key"))]),
        _ => Value::Map(vec![ks("alg", Value::int(-7)), ks("type", Value::text("private-key"))]),
    }
}

/// exhaustive small alphabet. words: [n (raw 0..=6), symbols packed base 4 (raw)]
fn g_params_small(src: &mut Src, obs: &mut Obs) -> CaseResult {
    let n = (src.word() as usize).min(8);
    let code = src.word();
    let list = Value::Array((0..n).map(|i| param_symbol(((code >> (2 * i)) & 3) as usize)).collect());
    obs.label("params:small-alphabet");
    obs.sample_with(|| json!({"kind": "params-small", "list": refcbor::diag(&list), "expected": spec_filter_params(&list).unwrap()}));
    check_params_list(&list, obs)
}

fn format_symbol(i: usize) -> Value {
    Value::text(["packed", "none", "tpm", "some other format"][i])
}

/// words: [n (raw 0..=5), symbols packed base 4 (raw)]
fn g_formats_small(src: &mut Src, obs: &mut Obs) -> CaseResult {
    let n = (src.word() as usize).min(8);
    let code = src.word();
    let list = Value::Array((0..n).map(|i| format_symbol(((code >> (2 * i)) & 3) as usize)).collect());
    obs.label("formats:small-alphabet");
    obs.sample_with(|| json!({"kind": "formats-small", "list": refcbor::diag(&list), "expected": format!("{:?}", spec_filter_formats(&list).unwrap())}));
    check_formats_list(&list, obs)
}

/// random lists up to 64 entries, alg over the whole i32 range, type strings up to 32 bytes,
/// entry member order either way
fn g_params_random(src: &mut Src, obs: &mut Obs) -> CaseResult {
    let n = match src.below(7) {
        0 => src.range(0, 3),
        1 => 12,
        2 => 13,
        3 => 64,
        // lists long enough for a counter of entries to leave 8 bits (still within one message)
        4 => *src.pick(&[255usize, 256, 257, 258, 259, 300]),
        _ => src.range(0, 64),
    };
    let all_supported = n >= 255 && src.bool();
    let list = Value::Array(
        (0..n)
            .map(|_| {
                if all_supported {
                    return Value::Map(vec![ks("alg", Value::int(if src.bool() { -7 } else { -8 })), ks("type", Value::text("public-key"))]);
                }
                let alg: i64 = match src.below(8) {
                    0 | 1 => -7,
                    2 | 3 => -8,
                    4 => *src.pick(&ALG_LATTICE),
                    _ => (src.word() as i32) as i64,
                };
                let ty = match src.below(6) {
                    0..=3 => Value::text("public-key"),
                    4 => {
                        let k = src.range(0, 32);
                        Value::Text(text_of_len(src, k).into_bytes())
                    }
                    _ => Value::text(*src.pick(&["public-ke", "public-keyy", "Public-Key", "", "public_key"])),
                };
                let mut e = vec![ks("alg", Value::int(alg)), ks("type", ty)];
                if src.chance(1, 4) {
                    e.reverse();
                }
                if src.chance(1, 6) {
                    // an additional member the filter does not know, anywhere in the entry
                    let key = *src.pick(&["vendor", "transports", "x", "algorithm", "typ"]);
                    let val = match src.below(4) {
                        0 => Value::Uint(1),
                        1 => Value::text("usb"),
                        2 => Value::Array(vec![Value::Uint(1), Value::Map(vec![])]),
                        _ => Value::Bool(true),
                    };
                    let at = src.below(e.len() + 1);
                    e.insert(at, ks(key, val));
                }
                Value::Map(e)
            })
            .collect(),
    );
    obs.label("params:random");
    obs.sample_with(|| json!({"kind": "params-random", "entries": n, "expected": spec_filter_params(&list).unwrap()}));
    check_params_list(&list, obs)
}

/// Algorithm identifiers outside the 32-bit range, in particular those congruent to -7 / -8 modulo
/// 2^32 or 2^16. Such an entry names no supported algorithm: the decoder may reject the list (the
/// range rule of C12) but if it accepts it, the entry must not be reported as ES256 / EdDSA and the
/// genuine entries must be reported as usual.
fn g_wide_alg(src: &mut Src, obs: &mut Obs) -> CaseResult {
    const WIDE: [i128; 14] = [
        4294967289, 4294967288, -4294967303, -4294967304, 8589934585, 8589934584, 2147483648, -2147483649,
        65529, 65528, -65543, 18446744073709551609, -9223372036854775808, 9223372036854775807,
    ];
    let n = src.range(1, 4);
    let mut want: Vec<i32> = vec![];
    let mut entries = vec![];
    let mut has_wide_out_of_range = false;
    for _ in 0..n {
        let (algv, alg128): (Value, i128) = if src.chance(1, 2) {
            let w = WIDE[src.below(WIDE.len())];
            (if w >= 0 { Value::Uint(w as u64) } else { Value::Nint((-1 - w) as u64) }, w)
        } else {
            let a = if src.bool() { -7 } else { -8 };
            (Value::int(a), a as i128)
        };
        if alg128 > i32::MAX as i128 || alg128 < i32::MIN as i128 {
            has_wide_out_of_range = true;
        }
        if (alg128 == -7 || alg128 == -8) && want.len() < 2 {
            want.push(alg128 as i32);
        }
        entries.push(Value::Map(vec![ks("alg", algv), ks("type", Value::text("public-key"))]));
    }
    let list = Value::Array(entries);
    let enc = refcbor::encode(&list);
    obs.label("params:wide-identifiers");
    obs.nontrivial(&[&enc]);
    obs.case_with(|| json!({"params_hex": hex(&enc)}));
    let fail = |path: &str, got: String| {
        Fail::new(format!("C14:params:wide-identifier:{}", path), format!("{}: parameter list {} -> {}, expected algs {:?} (or a rejection of the out-of-range identifier)", path, refcbor::diag(&list), got, want), json!({"list_hex": hex(&enc)}))
            .with_concrete("c14_params", enc.clone())
    };
    match cbor_deserialize::<FilteredPublicKeyCredentialParameters>(&enc) {
        Ok(f) => {
            let g: Vec<i32> = f.0.iter().map(|k| k.alg).collect();
            if g != want {
                return Err(fail("stand-alone", format!("{:?}", g)));
            }
        }
        Err(e) => {
            if !has_wide_out_of_range {
                return Err(fail("stand-alone", format!("rejected {:?}", e)));
            }
        }
    }
    match Request::deserialize(&mc_with(&list, None)) {
        Ok(Request::MakeCredential(r)) => {
            let g: Vec<i32> = r.pub_key_cred_params.0.iter().map(|k| k.alg).collect();
            if g != want {
                return Err(fail("MakeCredential", format!("{:?}", g)));
            }
        }
        Ok(_) => return Err(fail("MakeCredential", "wrong variant".into())),
        Err(e) => {
            if !has_wide_out_of_range {
                return Err(fail("MakeCredential", format!("rejected 0x{:02x}", e as u8)));
            }
        }
    }
    Ok(())
}
pub const G_WIDE_ALG: Gen = Gen { name: "c14_wide_alg", f: g_wide_alg };

fn g_formats_random(src: &mut Src, obs: &mut Obs) -> CaseResult {
    let mut info = Info::default();
    let list = if src.chance(1, 8) {
        // long lists: mostly known formats with a few unknown ones in between, or the other way
        // round (mostly / only unknown formats, a known one somewhere)
        let n = *src.pick(&[255usize, 256, 257, 258, 300, 512, 600]);
        let unknown_every = *src.pick(&[0usize, 7, 100]);
        let mostly_unknown = src.chance(1, 3);
        Value::Array(
            (0..n)
                .map(|i| {
                    if mostly_unknown {
                        if unknown_every != 0 && i % unknown_every == 3 {
                            Value::text(if i % 2 == 0 { "packed" } else { "none" })
                        } else {
                            Value::text(["tpm", "apple", "android-key", "fido-u2f"][i % 4])
                        }
                    } else if unknown_every != 0 && i % unknown_every == 3 {
                        Value::text("tpm")
                    } else {
                        Value::text(if (i / 2) % 2 == 0 { "packed" } else { "none" })
                    }
                })
                .collect(),
        )
    } else {
        gen_formats_list(src, &mut info, 40)
    };
    obs.label("formats:random");
    check_formats_list(&list, obs)
}

/// list lengths around every power of two a private "entries looked at" bound could sit on
const LATE_LENS: [usize; 24] = [3, 7, 8, 9, 15, 16, 17, 24, 31, 32, 33, 34, 48, 63, 64, 65, 66, 100, 127, 128, 129, 200, 257, 300];

fn late_len(src: &mut Src) -> usize {
    if src.chance(1, 4) {
        src.range(1, 320)
    } else {
        *src.pick(&LATE_LENS)
    }
}

/// a position in 0..n: anywhere, or one of the last three
fn late_pos(src: &mut Src, n: usize) -> usize {
    match src.below(4) {
        0 => n - 1,
        1 => n.saturating_sub(1 + src.below(3)),
        _ => src.below(n),
    }
}

/// Long lists in which nothing is supported except one to three entries at chosen positions -
/// in particular far behind the point at which a decoder that only looks at the first so many
/// entries (or counts entries in a narrow integer) would have stopped.
fn g_params_late(src: &mut Src, obs: &mut Obs) -> CaseResult {
    let n = late_len(src);
    let k = 1 + src.below(3);
    let mut at: Vec<(usize, i64)> = Vec::new();
    for _ in 0..k {
        at.push((late_pos(src, n), if src.bool() { -7 } else { -8 }));
    }
    let filler = src.below(4);
    let list = Value::Array(
        (0..n)
            .map(|i| {
                if let Some((_, alg)) = at.iter().find(|(p, _)| *p == i) {
                    return Value::Map(vec![ks("alg", Value::int(*alg)), ks("type", Value::text("public-key"))]);
                }
                match (filler + if filler == 3 { i } else { 0 }) % 3 {
                    0 => Value::Map(vec![ks("alg", Value::int(-257)), ks("type", Value::text("public-key"))]),
                    1 => Value::Map(vec![ks("alg", Value::int(-7)), ks("type", Value::text("private-key"))]),
                    _ => Value::Map(vec![ks("alg", Value::int(-(i as i64) - 9)), ks("type", Value::text("public-key"))]),
                }
            })
            .collect(),
    );
    obs.label("params:late");
    if at.iter().any(|(p, _)| *p >= 32) {
        obs.label("params:late:first-kept>=32");
    }
    obs.sample_with(|| json!({"kind": "params-late", "entries": n, "supported_at": at.iter().map(|(p, _)| *p).collect::<Vec<_>>(), "expected": spec_filter_params(&list).unwrap()}));
    check_params_list(&list, obs)
}
pub const G_PL: Gen = Gen { name: "c14_params_late", f: g_params_late };

/// The same for format lists: only unknown formats except known ones at chosen positions, or only
/// known formats except one unknown one at a chosen position (the flag must still be raised).
fn g_formats_late(src: &mut Src, obs: &mut Obs) -> CaseResult {
    let n = late_len(src);
    let unknown_filler = src.bool();
    let k = 1 + src.below(2);
    let mut at: Vec<usize> = Vec::new();
    for _ in 0..k {
        at.push(late_pos(src, n));
    }
    let first = src.bool();
    let list = Value::Array(
        (0..n)
            .map(|i| {
                let marked = at.contains(&i);
                if unknown_filler == marked {
                    // known format: the filler alternates or repeats, a marked one is either
                    Value::text(if (i % 2 == 0) == first { "packed" } else { "none" })
                } else {
                    Value::text(["tpm", "apple", "android-key", "fido-u2f", ""][i % 5])
                }
            })
            .collect(),
    );
    obs.label("formats:late");
    if at.iter().any(|p| *p >= 32) {
        obs.label(if unknown_filler { "formats:late:known>=32" } else { "formats:late:unknown>=32" });
    }
    check_formats_list(&list, obs)
}
pub const G_FL: Gen = Gen { name: "c14_formats_late", f: g_formats_late };

/// every small algorithm identifier (COSE registry range and around): words [alg + 70000 (raw), shape]
fn g_alg_sweep(src: &mut Src, obs: &mut Obs) -> CaseResult {
    let alg = src.word() as i64 - 70_000;
    let shape = src.below(4);
    if alg > i32::MAX as i64 {
        // outside the domain of this generator (only reachable through the raw-word fuzz target)
        obs.excluded = true;
        return Ok(());
    }
    let e = |a: i64, t: &str| Value::Map(vec![ks("alg", Value::int(a)), ks("type", Value::text(t))]);
    let list = match shape {
        0 => Value::Array(vec![e(alg, "public-key")]),
        1 => Value::Array(vec![e(alg, "public-key"), e(-7, "public-key"), e(-8, "public-key")]),
        2 => Value::Array(vec![e(-8, "public-key"), e(alg, "public-key"), e(-7, "public-key")]),
        _ => Value::Array(vec![e(alg, "x"), e(alg, "public-key")]),
    };
    obs.label("params:alg-sweep");
    check_params_list(&list, obs)
}
pub const G_AS: Gen = Gen { name: "c14_alg_sweep", f: g_alg_sweep };

fn g_params_concrete(src: &mut Src, obs: &mut Obs) -> CaseResult {
    let b = crate::run::unpack_bytes(src);
    obs.label("concrete");
    match refcbor::parse_strict(&b) {
        Ok(v) => check_params_list(&v, obs),
        Err(_) => Ok(()),
    }
}
fn g_formats_concrete(src: &mut Src, obs: &mut Obs) -> CaseResult {
    let b = crate::run::unpack_bytes(src);
    obs.label("concrete");
    match refcbor::parse_strict(&b) {
        Ok(v) => check_formats_list(&v, obs),
        Err(_) => Ok(()),
    }
}

pub const G_PS: Gen = Gen { name: "c14_params_small", f: g_params_small };
pub const G_FS: Gen = Gen { name: "c14_formats_small", f: g_formats_small };
pub const G_PR: Gen = Gen { name: "c14_params_random", f: g_params_random };
pub const G_FR: Gen = Gen { name: "c14_formats_random", f: g_formats_random };
pub const G_PC: Gen = Gen { name: "c14_params", f: g_params_concrete };
pub const G_FC: Gen = Gen { name: "c14_formats", f: g_formats_concrete };

pub fn gens() -> Vec<Gen> {
    vec![G_PS, G_FS, G_PR, G_FR, G_PC, G_FC, G_AS, G_WIDE_ALG, G_PL, G_FL]
}

pub const RULE: &str = "Exhaustive: all 5 461 lists of length 0..6 over {ES256, EdDSA, unknown algorithm with type public-key, known algorithm with unknown type} and all 1 365 lists of length 0..5 over {packed, none, tpm, other text}. proptest: parameter lists of up to 64 entries (12/13/64 boosted) with alg over the whole i32 range (-7/-8 boosted), type strings of 0..32 bytes (public-key and near misses boosted), entry member order either way; format lists up to 40 entries. Positional lists of 1..320 entries (lengths around every power of two boosted) in which everything is unsupported except one to three supported entries at chosen positions (anywhere, or among the last three), and format lists that are all unknown except known formats at chosen positions or all known except one unknown format at a chosen position. Lists with identifiers outside the 32-bit range (congruent to -7/-8 modulo 2^32 and 2^16, the i64/u64 extremes) next to genuine entries: either rejected, or filtered as if the wide entry named an unknown algorithm. Each parameter list is observed stand-alone, as MakeCredential member 4 and as GetInfo member 0x0A (decode side); each format list as MakeCredential member 0x0B and GetAssertion member 9. Oracle: entries.filter(type == public-key and alg in {-7,-8}).take(2) in order; known = entries.filter(in {packed,none}).take(2) in order, unknown flag = any other entry; decoding never fails. Non-trivial: a list with at least one dropped and one kept entry; evaluations count observation paths.";
pub const ASSUMPTIONS: &[&str] = &["the filter rules are transcribed from the property statement"];

pub fn run(ctx: &mut Ctx) {
    for n in 0..=6u32 {
        ctx.enumerate(&G_PS, (0..(1u32 << (2 * n))).map(move |c| vec![n, c]));
    }
    for n in 0..=5u32 {
        ctx.enumerate(&G_FS, (0..(1u32 << (2 * n))).map(move |c| vec![n, c]));
    }
    ctx.exhaustive.push("all lists of length 0..=6 over the 4-symbol parameter alphabet; all lists of length 0..=5 over the 4-symbol format alphabet".into());
    // every algorithm identifier in -66000..=66000 (all registered COSE algorithms and both
    // 1/2/3-byte head thresholds on either side) in four list shapes (quick: shape rotates)
    let quick = ctx.quick();
    ctx.enumerate(
        &G_AS,
        (4_000u32..=136_000).flat_map(move |a| {
            let shapes: Vec<usize> = if quick && !(69_000..=71_000).contains(&a) { vec![(a % 4) as usize] } else { vec![0, 1, 2, 3] };
            shapes.into_iter().map(move |sh| vec![a, idx(sh, 4)])
        }),
    );
    ctx.exhaustive.push("every algorithm identifier in -66000..=66000 as a public-key entry, alone and mixed with ES256/EdDSA".into());
    ctx.random(&G_PR, &[], ctx.t(8_000, 400_000), 900);
    ctx.random(&G_WIDE_ALG, &[], ctx.t(4_000, 100_000), 24);
    ctx.random(&G_FR, &[], ctx.t(4_000, 200_000), 400);
    ctx.random(&G_PL, &[], ctx.t(3_000, 150_000), 200);
    ctx.random(&G_FL, &[], ctx.t(3_000, 150_000), 200);
    ctx.require(&["params:small-alphabet", "formats:small-alphabet", "params:random", "formats:random", "params:len>12", "params:late:first-kept>=32", "formats:late:known>=32", "formats:late:unknown>=32", "params:alg-sweep", "path:GetInfo.0x0A", "path:GetAssertion.9"]);
}
