//! C13 — over-long names are cut on a character boundary; over-long icons are dropped.

use crate::props::c04;
use crate::refcbor::{self, Value};
use crate::reqmodel::*;
use crate::run::{idx, CaseResult, Ctx, Fail, Gen, Obs};
use crate::util::{hex, text_of_len, Src};
use ctap_types::ctap2::Request;
use ctap_types::serde::cbor_deserialize;
use ctap_types::webauthn::{PublicKeyCredentialRpEntity, PublicKeyCredentialUserEntity};
use serde_json::json;

/// Independent floor via the standard library: largest i <= min(64, len) on a char boundary.
fn spec_floor(s: &str, max: usize) -> usize {
    let mut i = max.min(s.len());
    while !s.is_char_boundary(i) {
        i -= 1;
    }
    i
}

const W1: [char; 4] = ['a', 'Z', '~', '\u{0}'];
const W2: [char; 4] = ['\u{e9}', '\u{80}', '\u{7ff}', '\u{308}'];
const W3: [char; 4] = ['\u{20ac}', '\u{800}', '\u{ffff}', '\u{d7ff}'];
const W4: [char; 4] = ['\u{1f600}', '\u{10000}', '\u{10ffff}', '\u{1f468}'];

fn scalar(width: usize, variant: usize) -> char {
    match width {
        1 => W1[variant % 4],
        2 => W2[variant % 4],
        3 => W3[variant % 4],
        _ => W4[variant % 4],
    }
}

fn ks(k: &str, v: Value) -> (Value, Value) {
    (Value::text(k), v)
}

fn text(s: &str) -> Value {
    Value::Text(s.as_bytes().to_vec())
}

/// Check one name string through every path that truncates names.
fn check_name(s: &str, obs: &mut Obs) -> CaseResult {
    let cut = spec_floor(s, 64);
    let want = &s[..cut];
    let moved = s.len() > 64 && !s.is_char_boundary(64);
    let class = if s.len() <= 64 {
        "name:fits"
    } else if !moved {
        "name:cut-at-64"
    } else {
        match 64 - cut {
            1 => "name:cut-moved-1",
            2 => "name:cut-moved-2",
            _ => "name:cut-moved-3",
        }
    };
    let fail = |path: &str, got: String| {
        Fail::new(
            format!("C13:name:{}:{}", path, class),
            format!("{}: name of {} bytes decoded to {:?}, expected the {}-byte prefix {:?}", path, s.len(), got, cut, want),
            json!({"path": path, "name_hex": hex(s.as_bytes()), "expected_prefix_len": cut}),
        )
        .with_concrete("c13_name", s.as_bytes().to_vec())
    };
    let verify = |path: &str, got: Option<&str>, raw_ok: bool| -> CaseResult {
        match got {
            Some(g) if g == want && g.len() <= 64 && raw_ok => Ok(()),
            Some(g) => Err(fail(path, g.to_string())),
            None => Err(fail(path, "<absent>".into())),
        }
    };
    obs.case_with(|| json!({"name_hex": hex(s.as_bytes())}));
    // 1. stand-alone user entity: name and displayName
    let user = Value::Map(vec![ks("id", Value::Bytes(vec![1, 2, 3])), ks("name", text(s)), ks("displayName", text(s))]);
    let ub = refcbor::encode_canonical(&user);
    obs.sub(class, &[b"user", s.as_bytes()]);
    match cbor_deserialize::<PublicKeyCredentialUserEntity>(&ub) {
        Ok(u) => {
            let raw_ok = u.name.as_ref().map(|n| std::str::from_utf8(n.as_bytes()).is_ok()).unwrap_or(false);
            verify("user.name", u.name.as_deref(), raw_ok)?;
            verify("user.displayName", u.display_name.as_deref(), true)?;
        }
        Err(e) => return Err(fail("user(stand-alone)", format!("rejected {:?}", e))),
    }
    // 2. stand-alone rp entity
    let rp = Value::Map(vec![ks("id", text("example.org")), ks("name", text(s))]);
    let rb = refcbor::encode_canonical(&rp);
    obs.sub(class, &[b"rp", s.as_bytes()]);
    match cbor_deserialize::<PublicKeyCredentialRpEntity>(&rb) {
        Ok(r) => verify("rp.name", r.name.as_deref(), true)?,
        Err(e) => return Err(fail("rp(stand-alone)", format!("rejected {:?}", e))),
    }
    // 3. inside a MakeCredential request
    let mc = Value::Map(vec![
        (Value::int(1), Value::Bytes(vec![7; 32])),
        (Value::int(2), rp.clone()),
        (Value::int(3), user.clone()),
        (Value::int(4), Value::Array(vec![Value::Map(vec![ks("alg", Value::int(-7)), ks("type", text("public-key"))])])),
    ]);
    let msg = message(CMD_MC, &mc);
    obs.sub(class, &[b"mc", s.as_bytes()]);
    match Request::deserialize(&msg) {
        Ok(Request::MakeCredential(r)) => {
            verify("MakeCredential.rp.name", r.rp.name.as_deref(), true)?;
            verify("MakeCredential.user.name", r.user.name.as_deref(), true)?;
            verify("MakeCredential.user.displayName", r.user.display_name.as_deref(), true)?;
        }
        Ok(_) => return Err(fail("MakeCredential", "wrong variant".into())),
        Err(e) => return Err(fail("MakeCredential", format!("rejected 0x{:02x}", e as u8))),
    }
    // 4. inside CredentialManagement updateUserInformation
    let cm = Value::Map(vec![
        (Value::int(1), Value::Uint(7)),
        (
            Value::int(2),
            Value::Map(vec![
                (Value::int(2), Value::Map(vec![ks("id", Value::Bytes(vec![9; 16])), ks("type", text("public-key"))])),
                (Value::int(3), user),
            ]),
        ),
    ]);
    let msg = message(CMD_CM, &cm);
    obs.sub(class, &[b"cm", s.as_bytes()]);
    match Request::deserialize(&msg) {
        Ok(Request::CredentialManagement(r)) => {
            let u = r.sub_command_params.and_then(|p| p.user);
            verify("CredentialManagement.user.name", u.as_ref().and_then(|u| u.name.as_deref()), true)?;
            verify("CredentialManagement.user.displayName", u.as_ref().and_then(|u| u.display_name.as_deref()), true)?;
        }
        Ok(_) => return Err(fail("CredentialManagement", "wrong variant".into())),
        Err(e) => return Err(fail("CredentialManagement", format!("rejected 0x{:02x}", e as u8))),
    }
    // 5. the same entity with its members encoded in another order (legal CBOR, not canonical):
    // a decoder may refuse it, but if it accepts, the names are the same prefixes
    {
        const PERMS: [[usize; 3]; 6] = [[0, 1, 2], [0, 2, 1], [1, 0, 2], [1, 2, 0], [2, 0, 1], [2, 1, 0]];
        let members = [ks("id", Value::Bytes(vec![1, 2, 3])), ks("name", text(s)), ks("displayName", text(s))];
        let perm = PERMS[(s.len() + s.as_bytes().first().copied().unwrap_or(0) as usize) % 6];
        let shuffled = Value::Map(perm.iter().map(|i| members[*i].clone()).collect());
        let ub = refcbor::encode(&shuffled);
        obs.sub("member-order-permuted", &[b"perm", &ub]);
        if let Ok(u) = cbor_deserialize::<PublicKeyCredentialUserEntity>(&ub) {
            verify("user.name(permuted member order)", u.name.as_deref(), true)?;
            verify("user.displayName(permuted member order)", u.display_name.as_deref(), true)?;
            if u.id.as_slice() != [1, 2, 3] {
                return Err(fail("user.id(permuted member order)", format!("id {:?}", u.id)));
            }
        } else {
            obs.label("member-order-permuted:rejected");
        }
        let mc = Value::Map(vec![
            (Value::int(1), Value::Bytes(vec![7; 32])),
            (Value::int(2), Value::Map(vec![ks("name", text(s)), ks("id", text("example.org"))])),
            (Value::int(3), shuffled),
            (Value::int(4), Value::Array(vec![Value::Map(vec![ks("alg", Value::int(-7)), ks("type", text("public-key"))])])),
        ]);
        let mut msg = vec![CMD_MC];
        msg.extend_from_slice(&refcbor::encode(&mc));
        let decoded = Request::deserialize(&msg);
        if let Ok(Request::MakeCredential(r)) = &decoded {
            verify("MakeCredential.rp.name(permuted member order)", r.rp.name.as_deref(), true)?;
            verify("MakeCredential.user.name(permuted member order)", r.user.name.as_deref(), true)?;
            verify("MakeCredential.user.displayName(permuted member order)", r.user.display_name.as_deref(), true)?;
        }
        drop(decoded);
    }
    // 6. the entity accompanied by unknown members: near-miss spellings of the known keys (other
    // naming conventions) and, every so often, more unknown members than any specification defines
    {
        const NEAR: [&str; 8] = ["display_name", "display-name", "DisplayName", "displayname", "Name", "names", "icons", "id2"];
        let k = (s.len() * 7 + s.as_bytes().first().copied().unwrap_or(0) as usize) % NEAR.len();
        let mut members = vec![ks("id", Value::Bytes(vec![1, 2, 3])), ks("name", text(s)), ks("displayName", text(s)), ks(NEAR[k], text("zz"))];
        if s.len() % 5 == 0 {
            for i in 0..16 {
                members.push(ks(&format!("extra{:02}", i), Value::Uint(i)));
            }
        }
        let with_extra = refcbor::canonicalize(&Value::Map(members));
        let ub = refcbor::encode(&with_extra);
        obs.sub("with-unknown-members", &[b"near", &ub]);
        match cbor_deserialize::<PublicKeyCredentialUserEntity>(&ub) {
            Ok(u) => {
                verify("user.name(with unknown members)", u.name.as_deref(), true)?;
                verify("user.displayName(with unknown members)", u.display_name.as_deref(), true)?;
            }
            Err(e) => return Err(fail("user(with unknown members)", format!("rejected {:?}", e))),
        }
    }
    // 7. two names in one entity that share everything up to the cut but differ behind it: the
    // other name has the same length and the same first `cut` bytes, with ASCII where this one has
    // the character that straddles byte 64. Each must be cut on its own merits.
    if moved {
        let width = s[cut..].chars().next().map(|c| c.len_utf8()).unwrap_or(1);
        let mut other = String::with_capacity(s.len());
        other.push_str(&s[..cut]);
        for _ in 0..width {
            other.push('x');
        }
        other.push_str(&s[cut + width..]);
        let ocut = spec_floor(&other, 64);
        for (first, second) in [("name", "displayName"), ("displayName", "name")] {
            let ent = Value::Map(vec![ks("id", Value::Bytes(vec![4, 5])), ks(first, text(s)), ks(second, text(&other))]);
            let eb = refcbor::encode(&ent);
            obs.sub("sibling-names-sharing-a-prefix", &[b"sib", &eb]);
            match cbor_deserialize::<PublicKeyCredentialUserEntity>(&eb) {
                Ok(u) => {
                    let (a, b) = if first == "name" { (u.name.as_deref(), u.display_name.as_deref()) } else { (u.display_name.as_deref(), u.name.as_deref()) };
                    verify("user(first of two names sharing a prefix)", a, true)?;
                    if b != Some(&other[..ocut]) {
                        return Err(Fail::new(
                            format!("C13:name:sibling-with-shared-prefix:{}", class),
                            format!("entity with two {}-byte names sharing their first {} bytes: the second decoded to {:?} ({} bytes), expected its own {}-byte prefix", s.len(), cut, b, b.map(|x| x.len()).unwrap_or(0), ocut),
                            json!({"entity_hex": hex(&eb)}),
                        ));
                    }
                }
                Err(e) => return Err(fail("user(two names sharing a prefix)", format!("rejected {:?}", e))),
            }
        }
    }
    if moved {
        obs.nontrivial(&[s.as_bytes()]);
    }
    Ok(())
}

/// (a) enumerated: pad || w1..w8 || tail. words: [pad idx (0..9 -> 56..64), pattern (raw: 2 bits per
/// position, 8 positions), variant (raw), tail len]
fn g_straddle(src: &mut Src, obs: &mut Obs) -> CaseResult {
    let pad = 56 + src.below(9);
    let pattern = src.word();
    let variant = src.word() as usize;
    let tail = src.below(240);
    let mut s = String::new();
    for i in 0..pad {
        s.push((b'a' + (i % 26) as u8) as char);
    }
    for i in 0..8 {
        let w = ((pattern >> (2 * i)) & 3) as usize + 1;
        s.push(scalar(w, variant >> (2 * i)));
    }
    for i in 0..tail {
        s.push((b'A' + (i % 26) as u8) as char);
    }
    obs.label("straddle");
    obs.sample_with(|| json!({"kind": "straddle", "pad": pad, "width_pattern": (0..8).map(|i| ((pattern >> (2 * i)) & 3) + 1).collect::<Vec<_>>(), "total_len": s.len(), "expected_cut": spec_floor(&s, 64)}));
    check_name(&s, obs)
}

/// (b) random Unicode text of 0..300 bytes
fn g_random_name(src: &mut Src, obs: &mut Obs) -> CaseResult {
    let n = src.range(0, 300);
    let s = text_of_len(src, n);
    obs.label("random-name");
    obs.sample_with(|| json!({"kind": "random", "len": s.len(), "expected_cut": spec_floor(&s, 64)}));
    check_name(&s, obs)
}

/// (c) icons of every length: user icon (<=128 kept, longer dropped), rp icon / url any length
/// words: [length (raw, 0..=300), values...]
fn g_icon(src: &mut Src, obs: &mut Obs) -> CaseResult {
    let n = (src.word() as usize).min(400);
    let s = text_of_len(src, n);
    let keep = s.len() <= 128;
    let class = if s.len() == 128 {
        "icon:128"
    } else if s.len() == 129 {
        "icon:129"
    } else if s.len() == 127 {
        "icon:127"
    } else if keep {
        "icon:<127"
    } else {
        "icon:>129"
    };
    obs.label(class);
    obs.case_with(|| json!({"icon_hex": hex(s.as_bytes())}));
    let fail = |path: &str, got: String| {
        Fail::new(
            format!("C13:icon:{}:{}", path, class),
            format!("{}: icon of {} bytes: {}", path, s.len(), got),
            json!({"path": path, "icon_len": s.len(), "icon_hex": hex(s.as_bytes())}),
        )
        .with_concrete("c13_icon", s.as_bytes().to_vec())
    };
    let want = if keep { Some(s.as_str()) } else { None };
    let user = Value::Map(vec![ks("id", Value::Bytes(vec![1])), ks("icon", text(&s)), ks("name", text("n"))]);
    obs.sub(class, &[b"user", s.as_bytes()]);
    match cbor_deserialize::<PublicKeyCredentialUserEntity>(&refcbor::encode_canonical(&user)) {
        Ok(u) => {
            if u.icon.as_deref() != want {
                return Err(fail("user.icon", format!("decoded {:?}", u.icon.as_deref().map(|i| i.len()))));
            }
            if u.name.as_deref() != Some("n") {
                return Err(fail("user.icon", "sibling name corrupted".into()));
            }
        }
        Err(e) => return Err(fail("user(stand-alone)", format!("rejected {:?}", e))),
    }
    for (ik, label) in [("icon", "rp.icon"), ("url", "rp.url")] {
        let rp = Value::Map(vec![ks("id", text("example.org")), ks(ik, text(&s)), ks("name", text("rpname"))]);
        obs.sub(class, &[label.as_bytes(), s.as_bytes()]);
        match cbor_deserialize::<PublicKeyCredentialRpEntity>(&refcbor::encode_canonical(&rp)) {
            Ok(r) => {
                if r.icon.is_none() || r.name.as_deref() != Some("rpname") || r.id.as_str() != "example.org" {
                    return Err(fail(label, "rp entity decoded wrongly".into()));
                }
            }
            Err(e) => return Err(fail(label, format!("rejected {:?}", e))),
        }
        let mc = Value::Map(vec![
            (Value::int(1), Value::Bytes(vec![7; 32])),
            (Value::int(2), rp),
            (Value::int(3), user.clone()),
            (Value::int(4), Value::Array(vec![])),
        ]);
        obs.sub(class, &[b"mc", label.as_bytes(), s.as_bytes()]);
        match Request::deserialize(&message(CMD_MC, &mc)) {
            Ok(Request::MakeCredential(r)) => {
                if r.user.icon.as_deref() != want || r.rp.icon.is_none() {
                    return Err(fail("MakeCredential", "icons decoded wrongly".into()));
                }
            }
            Ok(_) => return Err(fail("MakeCredential", "wrong variant".into())),
            Err(e) => return Err(fail("MakeCredential", format!("rejected 0x{:02x}", e as u8))),
        }
    }
    // CredentialManagement user icon
    let cm = Value::Map(vec![(Value::int(1), Value::Uint(7)), (Value::int(2), Value::Map(vec![(Value::int(3), user)]))]);
    obs.sub(class, &[b"cm", s.as_bytes()]);
    match Request::deserialize(&message(CMD_CM, &cm)) {
        Ok(Request::CredentialManagement(r)) => {
            let u = r.sub_command_params.and_then(|p| p.user);
            if u.as_ref().and_then(|u| u.icon.as_deref()) != want {
                return Err(fail("CredentialManagement.user.icon", "decoded wrongly".into()));
            }
        }
        Ok(_) => return Err(fail("CredentialManagement", "wrong variant".into())),
        Err(e) => return Err(fail("CredentialManagement", format!("rejected 0x{:02x}", e as u8))),
    }
    if !keep || s.len() >= 127 {
        obs.nontrivial(&[s.as_bytes()]);
    }
    obs.sample_with(|| json!({"kind": "icon", "len": s.len(), "expected": if keep {"kept verbatim"} else {"dropped, request accepted"}}));
    Ok(())
}

/// (d) ill-formed UTF-8: words: [base length, position, replacement idx, field idx, values...]
fn g_illformed(src: &mut Src, obs: &mut Obs) -> CaseResult {
    let n = src.range(1, 100);
    let base = text_of_len(src, n);
    let mut b = base.into_bytes();
    let kind = src.below(4);
    match kind {
        0 | 1 => {
            let pos = src.below(b.len());
            b[pos] = *src.pick(&[0x80u8, 0xC0, 0xE0, 0xF8, 0xFF]);
        }
        2 => {
            // truncated multi-byte / surrogate / overlong appended or inserted
            let seq: &[u8] = *src.pick(&[&[0xC3u8][..], &[0xE2, 0x82], &[0xF0, 0x9F, 0x98], &[0xED, 0xA0, 0x80], &[0xC0, 0xAF], &[0xE0, 0x80, 0xAF], &[0xF4, 0x90, 0x80, 0x80]]);
            let pos = src.below(b.len() + 1);
            for (i, x) in seq.iter().enumerate() {
                b.insert(pos + i, *x);
            }
        }
        _ => {
            // cut in the middle of a character
            let pos = src.below(b.len());
            b.truncate(pos);
            b.push(0xE2);
        }
    }
    let valid = std::str::from_utf8(&b).is_ok();
    let field = src.below(5);
    let fname = ["rp.name", "user.name", "user.displayName", "user.icon", "rp.icon"][field];
    obs.labelf(format!("illformed:{}", if valid { "still-valid" } else { "invalid" }));
    obs.labelf(format!("illformed-field:{}", fname));
    let bad = Value::Text(b.clone());
    let mut rp = vec![ks("id", text("example.org"))];
    let mut user = vec![ks("id", Value::Bytes(vec![1]))];
    match field {
        0 => rp.push(ks("name", bad)),
        1 => user.push(ks("name", bad)),
        2 => user.push(ks("displayName", bad)),
        3 => user.push(ks("icon", bad)),
        _ => rp.push(ks("icon", bad)),
    }
    let mc = Value::Map(vec![
        (Value::int(1), Value::Bytes(vec![7; 32])),
        (Value::int(2), Value::Map(rp.clone())),
        (Value::int(3), Value::Map(user.clone())),
        (Value::int(4), Value::Array(vec![])),
    ]);
    let msg = message(CMD_MC, &mc);
    obs.case_with(|| json!({"field": fname, "text_hex": hex(&b), "input_hex": hex(&msg)}));
    if !valid {
        obs.nontrivial(&[&b, &[field as u8]]);
    }
    let st = c04::status_of(&msg);
    let standalone_ok = if field == 0 || field == 4 {
        cbor_deserialize::<PublicKeyCredentialRpEntity>(&refcbor::encode_canonical(&Value::Map(rp))).is_ok()
    } else {
        cbor_deserialize::<PublicKeyCredentialUserEntity>(&refcbor::encode_canonical(&Value::Map(user))).is_ok()
    };
    obs.sample_with(|| json!({"kind": "ill-formed", "field": fname, "text_hex": hex(&b), "valid_utf8": valid, "status": st.map(|s| format!("0x{:02x}", s))}));
    let mut payload = vec![field as u8];
    payload.extend_from_slice(&b);
    if valid {
        if st.is_some() || !standalone_ok {
            return Err(Fail::new(format!("C13:valid-utf8-rejected:{}", fname), format!("valid UTF-8 in {} rejected", fname), json!({"text_hex": hex(&b)}))
                .with_concrete("c13_text", payload));
        }
    } else if st != Some(0x12) || standalone_ok {
        return Err(Fail::new(
            format!("C13:illformed-utf8-accepted:{}", fname),
            format!("ill-formed UTF-8 in {} was not rejected (request status {:?}, stand-alone accepted={})", fname, st, standalone_ok),
            json!({"field": fname, "text_hex": hex(&b), "input_hex": hex(&msg)}),
        )
        .with_concrete("c13_text", payload));
    }
    Ok(())
}

/// every Unicode scalar value, once in a short name (must be kept verbatim) and once straddling
/// the 64-byte cut. words: [scalar (raw), position selector]
fn g_scalar(src: &mut Src, obs: &mut Obs) -> CaseResult {
    let cp = src.word();
    let sel = src.below(7);
    let Some(c) = char::from_u32(cp) else {
        obs.excluded = true;
        return Ok(());
    };
    let s = match sel {
        0 => format!("ab{}cd", c),
        1 => format!("{}", c),
        // the character ENDS exactly at byte 64 and text follows: the kept prefix ends with it
        4 => {
            let start = 64 - c.len_utf8();
            let mut s: String = (0..start).map(|i| (b'a' + (i % 26) as u8) as char).collect();
            s.push(c);
            s.push_str("tail-after-the-cut");
            s
        }
        // nothing but this character, far beyond the limit (the kept prefix starts and ends with it)
        5 => std::iter::repeat(c).take(70 / c.len_utf8() + 2).collect(),
        // alternating with another character, starting with this one
        6 => {
            let mut s = String::new();
            while s.len() <= 70 {
                s.push(c);
                s.push('\u{20ac}');
            }
            s
        }
        // the character starts at offset 64 - k so that it straddles (or just precedes) the cut
        k => {
            let start = 64 - (k - 1).min(c.len_utf8());
            let mut s: String = (0..start).map(|i| (b'a' + (i % 26) as u8) as char).collect();
            s.push(c);
            s.push_str("tail-after-the-cut");
            s
        }
    };
    obs.label("scalar-sweep");
    check_name(&s, obs)
}
pub const G_SCALAR: Gen = Gen { name: "c13_scalar", f: g_scalar };

fn g_name_concrete(src: &mut Src, obs: &mut Obs) -> CaseResult {
    let b = crate::run::unpack_bytes(src);
    obs.label("concrete");
    match std::str::from_utf8(&b) {
        Ok(s) => check_name(s, obs),
        Err(_) => Ok(()),
    }
}
fn g_icon_concrete(src: &mut Src, obs: &mut Obs) -> CaseResult {
    let b = crate::run::unpack_bytes(src);
    // re-run the icon case with exactly this text: feed it through a one-off path
    let s = match String::from_utf8(b) {
        Ok(s) => s,
        Err(_) => return Ok(()),
    };
    let user = Value::Map(vec![ks("id", Value::Bytes(vec![1])), ks("icon", text(&s))]);
    let mc = Value::Map(vec![
        (Value::int(1), Value::Bytes(vec![7; 32])),
        (Value::int(2), Value::Map(vec![ks("id", text("example.org"))])),
        (Value::int(3), user),
        (Value::int(4), Value::Array(vec![])),
    ]);
    obs.label("concrete");
    let msg = message(CMD_MC, &mc);
    obs.case_with(|| json!({"input_hex": hex(&msg)}));
    let res = Request::deserialize(&msg);
    let want = if s.len() <= 128 { Some(s.as_str()) } else { None };
    let shown = match &res {
        Ok(Request::MakeCredential(r)) if r.user.icon.as_deref() == want => return Ok(()),
        Ok(Request::MakeCredential(_)) => "icon decoded wrongly".to_string(),
        Ok(r) => format!("wrong variant {}", variant_name(r)),
        Err(e) => format!("request rejected with 0x{:02x}", *e as u8),
    };
    Err(Fail::new("C13:icon:concrete", shown, json!({"icon_len": s.len()})))
}

pub const G_STRADDLE: Gen = Gen { name: "c13_straddle", f: g_straddle };
pub const G_RANDOM: Gen = Gen { name: "c13_random_name", f: g_random_name };
pub const G_ICON: Gen = Gen { name: "c13_icon_len", f: g_icon };
pub const G_ILL: Gen = Gen { name: "c13_illformed", f: g_illformed };
pub const G_NAME_C: Gen = Gen { name: "c13_name", f: g_name_concrete };
pub const G_ICON_C: Gen = Gen { name: "c13_icon", f: g_icon_concrete };

pub fn gens() -> Vec<Gen> {
    vec![G_STRADDLE, G_RANDOM, G_ICON, G_ILL, G_NAME_C, G_ICON_C, G_SCALAR]
}

pub const RULE: &str = "(a) enumerated: strings pad || w1..w8 || tail with pad = 56..64 ASCII bytes and every arrangement of character widths 1-4 in the 8 characters straddling byte 64 (thorough: all 4^8 patterns x 9 alignments; quick: all 4^5 patterns of the first five straddling characters x 9 alignments, remaining three random), several scalars per width incl. U+0000, U+D7FF, U+FFFF, U+10FFFF; (b) proptest: random Unicode text of 0..300 bytes; (c) icons of every length 0..300 (mixed-width text) as user icon, rp icon and legacy url; (d) ill-formed UTF-8: a valid text with one byte replaced by 0x80/0xC0/0xE0/0xF8/0xFF at a random position, truncated multi-byte sequences, surrogates, overlongs, cut characters, in each of rp.name, user.name, user.displayName, user.icon, rp.icon. Every string goes through the stand-alone user and rp entities, a MakeCredential request and a CredentialManagement updateUserInformation request, and additionally through a user entity (stand-alone and inside MakeCredential) whose members are encoded in one of the six orders of id / name / displayName (if the decoder accepts the non-canonical order, the result must be the same), and through a user entity that also carries unknown members: a near-miss spelling of a known key (display_name, DisplayName, names ...) and, one time in five, 16 further unknown members; and, whenever the cut had to move, through an entity whose other name has the same length and the same kept prefix but differs behind the cut. Oracle: names equal the prefix ending at the largest char boundary <= 64 computed with str::is_char_boundary, valid UTF-8, <= 64 bytes; icon <= 128 kept verbatim, longer reported absent with the request accepted; rp icon/url of any length accepted; text that std::str::from_utf8 rejects must be rejected (InvalidCbor). Non-trivial: a name longer than 64 bytes whose byte 64 is not a boundary (the cut had to move), an icon of >= 127 bytes, or an actually ill-formed text; evaluations count decode paths.";
pub const ASSUMPTIONS: &[&str] = &["str::is_char_boundary / std::str::from_utf8 are the reference for boundaries and well-formedness", "debug assertions make a failed unwrap_unchecked abort"];

pub fn run(ctx: &mut Ctx) {
    // (a) straddling patterns x alignments
    if ctx.quick() {
        for pad in 0..9 {
            let items = (0..(1u32 << 10)).map(move |p| {
                // lower five positions enumerated, upper three derived deterministically from the index
                let upper = (p.wrapping_mul(2654435761) >> 20) & 0x3F;
                vec![idx(pad, 9), p | (upper << 10), p.wrapping_mul(40503), idx((p as usize * 7) % 240, 240)]
            });
            ctx.enumerate(&G_STRADDLE, items);
        }
        ctx.exhaustive.push("all 4^5 width patterns of the five characters straddling byte 64 x 9 alignments".into());
    } else {
        for pad in 0..9 {
            let items = (0..(1u32 << 16)).map(move |p| vec![idx(pad, 9), p, p.wrapping_mul(40503), idx((p as usize * 7) % 240, 240)]);
            ctx.enumerate(&G_STRADDLE, items);
        }
        ctx.exhaustive.push("all 4^8 width patterns of the eight characters straddling byte 64 x 9 alignments".into());
    }
    if ctx.too_many() {
        return;
    }
    // every Unicode scalar value (1 112 064) in a short name and on the cut (quick: the position rotates)
    let quick = ctx.quick();
    ctx.enumerate(
        &G_SCALAR,
        (0u32..0x11_0000).filter(|c| !(0xD800..0xE000).contains(c)).flat_map(move |c| {
            // quick: one rotating position per scalar, all positions for the characters that text
            // processing singles out (joiners, variation selectors, marks, tags, BOM ...)
            let special = matches!(c, 0x200B..=0x200F | 0x2028..=0x202E | 0x2060..=0x2064 | 0xFE00..=0xFE0F | 0xFEFF | 0x0300..=0x036F | 0xE0001 | 0xE0020..=0xE007F | 0x1F3FB..=0x1F3FF | 0x00 | 0x20 | 0xA0);
            let sels: Vec<usize> = if quick && !special { vec![(c % 7) as usize] } else { vec![0, 1, 2, 3, 4, 5, 6] };
            sels.into_iter().map(move |k| vec![c, idx(k, 7)])
        }),
    );
    ctx.exhaustive.push("every Unicode scalar value in a short name, straddling the 64-byte cut, ending exactly at it, repeated beyond it and alternating with another character".into());
    ctx.random(&G_RANDOM, &[], ctx.t(6_000, 300_000), 400);
    // (c) every icon length 0..=300, several contents each
    for n in 0..=300u32 {
        ctx.random(&G_ICON, &[n], ctx.t(3, 60), 400);
    }
    ctx.exhaustive.push("every icon length 0..=300".into());
    ctx.random(&G_ILL, &[], ctx.t(12_000, 500_000), 200);
    ctx.require(&[
        "scalar-sweep", "name:fits", "name:cut-at-64", "name:cut-moved-1", "name:cut-moved-2", "name:cut-moved-3", "icon:127", "icon:128",
        "icon:129", "icon:>129", "illformed:invalid", "illformed-field:rp.name", "illformed-field:user.name",
        "illformed-field:user.displayName", "illformed-field:user.icon", "illformed-field:rp.icon",
    ]);
}
