//! C09 — CTAP1/U2F responses are encoded in the U2F raw message layout.

use crate::run::{CaseResult, Ctx, Fail, Gen, Obs};
use crate::util::{hex, Src};
use ctap_types::ctap1::{authenticate, register, Response};
use ctap_types::Bytes;
use serde_json::json;

/// Serialise into an `iso7816::Data<S>` pre-filled with `prefix`; returns (result, buffer after).
fn ser_into(resp: &Response, cap: usize, prefix: &[u8]) -> Option<(Result<(), ()>, Vec<u8>)> {
    macro_rules! go {
        ($($s:literal),*) => {
            match cap {
                $( $s => {
                    let mut buf: iso7816::Data<$s> = iso7816::Data::new();
                    if buf.extend_from_slice(prefix).is_err() { return None; }
                    let r = resp.serialize(&mut buf);
                    Some((r, buf.to_vec()))
                } )*
                _ => None,
            }
        };
    }
    go!(0, 1, 2, 5, 6, 7, 8, 66, 67, 68, 77, 78, 79, 256, 330, 1024, 1500, 2048, 7609, 65535, 65536, 65537, 65600, 66000, 70000, 131072, 131100)
}
/// capacities used only for the roomy-buffer cases (free space beyond 16 bits)
pub const BIG_CAPS: [usize; 9] = [7609, 65535, 65536, 65537, 65600, 66000, 70000, 131072, 131100];
pub const CAPS: [usize; 18] = [0, 1, 2, 5, 6, 7, 8, 66, 67, 68, 77, 78, 79, 256, 330, 1024, 1500, 2048];

fn b<const N: usize>(v: &[u8]) -> Bytes<N> {
    Bytes::from_slice(v).unwrap()
}

/// Give `buf` the look of a DER element: SEQUENCE tag and a length field that is consistent with
/// the buffer, too short or too long (real certificates and ECDSA signatures start like this;
/// code that "understands" the content must still emit every byte).
fn derify(buf: &mut [u8], src: &mut Src) -> &'static str {
    let n = buf.len();
    if n < 4 || src.chance(1, 3) {
        return "content:random";
    }
    buf[0] = 0x30;
    let style = src.below(4);
    let declared = |body: usize, src: &mut Src| -> usize {
        match src.below(4) {
            0 | 1 => body,
            2 => body.saturating_sub(1 + src.below(8)),
            _ => body + 1 + src.below(8),
        }
    };
    match style {
        0 if n - 2 < 128 => {
            buf[1] = declared(n - 2, src) as u8 & 0x7F;
            "content:der-short-length"
        }
        1 | 0 if n >= 3 => {
            buf[1] = 0x81;
            buf[2] = declared(n - 3, src) as u8;
            "content:der-0x81-length"
        }
        _ => {
            buf[1] = 0x82;
            let d = declared(n - 4, src) as u16;
            buf[2] = (d >> 8) as u8;
            buf[3] = d as u8;
            "content:der-0x82-length"
        }
    }
}

/// words: [kind, boundary selector, delta selector, capacity selector, values...]
fn g_resp(src: &mut Src, obs: &mut Obs) -> CaseResult {
    let kind = src.below(3);
    let bsel = src.word();
    let dsel = src.below(5); // remaining = boundary - 2 .. boundary + 2
    let csel = src.word();
    let (resp, parts): (Response, Vec<(&str, Vec<u8>)>) = match kind {
        0 => {
            let header = src.byte();
            let mut x = src.bytes(32);
            let mut y = src.bytes(32);
            // coordinates with a meaning to elliptic-curve code: all zero (the encoding some
            // libraries use for the point at infinity), all 0xFF, only the top or bottom bit set
            if src.chance(1, 6) {
                let fill = *src.pick(&[0x00u8, 0xFF, 0x00, 0x80]);
                x = vec![fill; 32];
                if src.chance(3, 4) {
                    y = vec![fill; 32];
                }
                if src.chance(1, 4) {
                    y[31] = 1;
                }
                obs.label("content:constant-coordinates");
            }
            let khl = match src.below(6) {
                0 => 0,
                1 => 255,
                2 => 254,
                3 => 1,
                _ => src.range(0, 255),
            };
            let kh = src.bytes(khl);
            let cl = match src.below(6) {
                0 => 0,
                1 => 1024,
                2 => 1023,
                3 => 1,
                _ => src.range(0, 1024),
            };
            let mut cert = src.bytes(cl);
            let cert_style = derify(&mut cert, src);
            obs.label(cert_style);
            let sl = match src.below(5) {
                0 => 0,
                1 => 72,
                2 => 71,
                _ => src.range(0, 72),
            };
            let mut sig = src.bytes(sl);
            let _ = derify(&mut sig, src);
            let mut kh = kh;
            if src.chance(1, 4) {
                let _ = derify(&mut kh, src);
            }
            let key = cosey::EcdhEsHkdf256PublicKey { x: b(&x), y: b(&y) };
            let r = register::Response::new(header, &key, b(&kh), b(&sig), b(&cert));
            let mut pk = vec![0x04];
            pk.extend_from_slice(&x);
            pk.extend_from_slice(&y);
            (
                Response::Register(r),
                vec![("reserved", vec![header]), ("public-key", pk), ("handle-length", vec![khl as u8]), ("key-handle", kh), ("certificate", cert), ("signature", sig)],
            )
        }
        1 => {
            let up = src.byte();
            let count = match src.below(9) {
                0 => 0,
                1 => 1,
                2 => 0xFF,
                3 => 0x100,
                4 => 0x01020304,
                5 => 0x80000000,
                6 => 0xFFFFFFFF,
                _ => src.word(),
            };
            let sl = match src.below(5) {
                0 => 0,
                1 => 72,
                2 => 71,
                _ => src.range(0, 72),
            };
            let mut sig = src.bytes(sl);
            let _ = derify(&mut sig, src);
            let r = authenticate::Response { user_presence: up, count, signature: b(&sig) };
            (Response::Authenticate(r), vec![("presence", vec![up]), ("counter", count.to_be_bytes().to_vec()), ("signature", sig)])
        }
        _ => {
            let v = src.bytes(6);
            let mut a = [0u8; 6];
            a.copy_from_slice(&v);
            (Response::Version(a), vec![("version", v)])
        }
    };
    let kname = ["register", "authenticate", "version"][kind];
    let model: Vec<u8> = parts.iter().flat_map(|(_, p)| p.iter().copied()).collect();
    // cumulative part boundaries (0 and after each part)
    let mut bounds = vec![0usize];
    let mut acc = 0;
    for (_, p) in &parts {
        acc += p.len();
        bounds.push(acc);
    }
    let boundary = bounds[(bsel as usize) % bounds.len()];
    let remaining = (boundary + dsel).saturating_sub(2);
    // capacity: any listed capacity that can provide `remaining` free bytes
    let cands: Vec<usize> = CAPS.iter().copied().filter(|c| *c >= remaining).collect();
    if cands.is_empty() {
        obs.excluded = true;
        return Ok(());
    }
    let mut cap = cands[(csel as usize) % cands.len()];
    let mut prefix_len = cap - remaining;
    let mut remaining = remaining;
    // roomy buffers: far more free space than any response needs, incl. sizes at which a free-space
    // computation in 16 bits would wrap
    if src.chance(1, 10) {
        cap = *src.pick(&BIG_CAPS);
        prefix_len = if src.bool() { 0 } else { src.below(600) };
        remaining = cap - prefix_len;
        obs.label("roomy-buffer");
    }
    let mut prefix: Vec<u8> = (0..prefix_len).map(|i| 0xC0 ^ (i as u8).wrapping_mul(13)).collect();
    // what a reused transport buffer typically ends in: an ISO 7816 status word, zeros, 0xFF
    if prefix_len >= 2 && src.chance(1, 4) {
        let tail: [u8; 2] = *src.pick(&[[0x90, 0x00], [0x61, 0x10], [0x69, 0x85], [0x00, 0x00], [0xFF, 0xFF], [0x00, 0x90]]);
        prefix[prefix_len - 2] = tail[0];
        prefix[prefix_len - 1] = tail[1];
        obs.label("prefix:ends-in-status-word");
    }
    let fits = model.len() <= remaining;
    obs.labelf(format!("kind:{}", kname));
    obs.label(if fits { "fits" } else { "overflow" });
    if !fits {
        // first part that does not fit
        let mut acc = 0;
        for (n, p) in &parts {
            acc += p.len();
            if acc > remaining {
                obs.labelf(format!("first-part-not-fitting:{}", n));
                break;
            }
        }
    }
    if !prefix.is_empty() || !fits {
        obs.nontrivial(&[kname.as_bytes(), &model, &(cap as u32).to_le_bytes(), &(prefix_len as u32).to_le_bytes()]);
    }
    let case = || json!({"kind": kname, "capacity": cap, "prefilled": prefix_len, "remaining": remaining, "message_len": model.len(), "message_hex": hex(&model),
        "parts": parts.iter().map(|(n, p)| format!("{}:{}", n, p.len())).collect::<Vec<_>>()});
    obs.case_with(case);
    obs.sample_with(|| json!({"kind": kname, "capacity": cap, "prefilled": prefix_len, "message_len": model.len(), "fits": fits,
        "parts": parts.iter().map(|(n, p)| format!("{}:{}", n, p.len())).collect::<Vec<_>>()}));
    let (r, after) = ser_into(&resp, cap, &prefix).ok_or_else(|| Fail::new("C09:harness:capacity", "no such capacity", json!({})))?;
    let sig = |what: &str| format!("C09:{}:{}:{}", kname, what, if fits { "fits" } else { "overflow" });
    if fits {
        if r.is_err() {
            return Err(Fail::new(sig("reported-failure"), format!("{} bytes fit into {} free bytes but serialize failed", model.len(), remaining), case()));
        }
        let mut want = prefix.clone();
        want.extend_from_slice(&model);
        if after != want {
            let first = after.iter().zip(want.iter()).position(|(a, b)| a != b).unwrap_or(after.len().min(want.len()));
            let part = {
                let off = first.saturating_sub(prefix_len);
                let mut acc = 0;
                let mut name = "prefix";
                if first >= prefix_len {
                    for (n, p) in &parts {
                        acc += p.len();
                        if off < acc {
                            name = n;
                            break;
                        }
                    }
                }
                name
            };
            return Err(Fail::new(
                format!("C09:{}:layout:{}", kname, part),
                format!("buffer differs from prefix || message at offset {} ({}): got length {}, expected {}", first, part, after.len(), want.len()),
                {
                    let mut c = case();
                    c["got_hex"] = json!(hex(&after[prefix_len.min(after.len())..]));
                    c
                },
            ));
        }
    } else {
        if r.is_ok() {
            return Err(Fail::new(sig("reported-success"), format!("{} bytes do not fit into {} free bytes but serialize succeeded", model.len(), remaining), case()));
        }
        if after.len() < prefix_len || after[..prefix_len] != prefix[..] {
            return Err(Fail::new(sig("prefix-disturbed"), "existing buffer contents were disturbed by a failing serialize".to_string(), case()));
        }
    }
    Ok(())
}

pub const G_RESP: Gen = Gen { name: "c09_resp", f: g_resp };

pub fn gens() -> Vec<Gen> {
    vec![G_RESP]
}

pub const RULE: &str = "Register (via register::Response::new with random x, y - one time in six constant-filled coordinates (all zero, all 0xFF, a single bit); key-handle length 0..255, certificate 0..1024, signature 0..72, boundary lengths boosted), Authenticate (presence byte, counter over the big-endian byte patterns 0,1,0xFF,0x100,0x01020304,0x80000000,0xFFFFFFFF and random, signature 0..72) and Version responses, serialised into iso7816::Data<S> for S in {0,1,2,5,6,7,8,66,67,68,77,78,79,256,330,1024,1500,2048} with certificate / signature / key-handle contents that are either random or shaped like DER elements (SEQUENCE tag with a short, 0x81 or 0x82 length that is consistent, too short or too long), pre-filled with a sentinel prefix (one time in four ending in an ISO 7816 status word such as 90 00, zeros or 0xFF) whose length is chosen so that the REMAINING space is boundary-2 .. boundary+2 for every part boundary (header | key | length byte | handle | certificate | signature) - exhaustive over (kind, boundary, delta), proptest over contents and capacities. One case in ten uses a roomy buffer instead (capacity 7609, 65535, 65536, 65537, 65600, 66000, 70000, 131072 or 131100 with a prefix of 0..600 bytes). Oracle: model = concatenation per the statement; fits -> Ok(()) and buffer == prefix || model; does not fit -> Err(()), no panic, prefix bytes unchanged. Non-trivial: non-empty prefix or a failing capacity; distinct by (kind, message, capacity, prefix length).";
pub const ASSUMPTIONS: &[&str] = &["bytes after the prefix are unspecified when serialisation fails and are not asserted"];

pub fn run(ctx: &mut Ctx) {
    use crate::run::idx;
    for kind in 0..3usize {
        let nb = [7, 4, 2][kind];
        for bnd in 0..nb as u32 {
            for d in 0..5usize {
                ctx.random(&G_RESP, &[idx(kind, 3), bnd, idx(d, 5)], ctx.t(1_000, 20_000), 600);
            }
        }
        if ctx.too_many() {
            return;
        }
    }
    ctx.random(&G_RESP, &[], ctx.t(60_000, 1_000_000), 600);
    ctx.exhaustive.push("every (response kind, part boundary, remaining-space delta -2..+2) combination".into());
    ctx.require(&[
        "kind:register", "kind:authenticate", "kind:version", "fits", "overflow", "content:der-0x81-length", "content:der-0x82-length", "content:random", "first-part-not-fitting:reserved",
        "first-part-not-fitting:public-key", "first-part-not-fitting:handle-length", "first-part-not-fitting:key-handle",
        "first-part-not-fitting:certificate", "first-part-not-fitting:signature", "first-part-not-fitting:presence",
        "first-part-not-fitting:counter", "first-part-not-fitting:version",
    ]);
}
