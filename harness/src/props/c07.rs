//! C07 — authenticator data is laid out byte-for-byte as WebAuthn specifies.

use crate::refcbor::{self, Value};
use crate::run::{bit, idx, CaseResult, Ctx, Fail, Gen, Obs};
use crate::types::{self, TInfo, T};
use crate::util::{hex, Src};
use ctap_types::ctap2::{self, AuthenticatorDataFlags as F};
use serde_json::json;

const COUNTS: [u32; 6] = [0, 1, 0xFF, 0x100, 0x01020304, 0xFFFFFFFF];
const KEY_LENS: [usize; 10] = [0, 32, 77, 256, 300, 600, 621, 622, 639, 640];
const AAGUID_LENS: [usize; 5] = [16, 0, 17, 15, 1];
const CAPACITY: usize = 676;

/// words: [flavour, flags (raw 0..15), count idx (0..6 lattice, 6 = random), attested present,
///         aaguid idx, id length (raw), key idx, ext present, ext presence bits.., values...]
fn g_authdata(src: &mut Src, obs: &mut Obs) -> CaseResult {
    let mc = src.bool();
    let fl = src.word() & 15;
    let ci = src.below(7);
    let att = src.bool();
    let ai = src.below(AAGUID_LENS.len());
    let raw = src.word() as usize;
    let id_len = if raw <= 70_000 { raw } else { raw % 720 };
    let ki = src.below(KEY_LENS.len());
    let ext_present = src.bool();
    // flags from the WebAuthn bit assignments: UP=0x01 UV=0x04 AT=0x40 ED=0x80
    let mut flags = F::empty();
    let mut want_flags = 0u8;
    if fl & 1 != 0 {
        flags |= F::USER_PRESENCE;
        want_flags |= 0x01;
    }
    if fl & 2 != 0 {
        flags |= F::USER_VERIFIED;
        want_flags |= 0x04;
    }
    if fl & 4 != 0 {
        flags |= F::ATTESTED_CREDENTIAL_DATA;
        want_flags |= 0x40;
    }
    if fl & 8 != 0 {
        flags |= F::EXTENSION_DATA;
        want_flags |= 0x80;
    }
    // half of the cases build the same flag set the other way round: as the complement of the
    // complementary set (the flags byte must only ever carry the four defined bits)
    if fl & 16 == 0 && src.chance(1, 2) {
        let via = !(F::all() - flags);
        if via != flags || via.bits() != want_flags {
            return Err(Fail::new(
                "C07:flags:complement",
                format!("!(all - flags) = 0x{:02x} for flags 0x{:02x}", via.bits(), want_flags),
                json!({"flags": want_flags}),
            ));
        }
        flags = !(!flags);
        obs.label("flags:built-by-complement");
    }
    let mut ti = TInfo::default();
    let ext_model = if mc { types::gen(T::McExt, src, &mut ti) } else { types::gen(T::GaExtOut, src, &mut ti) };
    let count = if ci < 6 { COUNTS[ci] } else { src.word() };
    let rp = src.bytes(32);
    let mut rp_hash = [0u8; 32];
    rp_hash.copy_from_slice(&rp);
    let aaguid = src.bytes(AAGUID_LENS[ai]);
    // contents of the long members: a cheap position-dependent pattern seeded by one word
    let seed = src.word();
    let pat = |n: usize, salt: u32| -> Vec<u8> { (0..n).map(|i| ((i as u32).wrapping_mul(2654435761).wrapping_add(seed ^ salt) >> 13) as u8).collect() };
    let id = pat(id_len, 1);
    let mut key = pat(KEY_LENS[ki], 2);
    // one case in four carries a credential public key that IS a COSE_Key (as real authenticators
    // emit): P-256, Ed25519, ECDH-ES P-256, P-384, secp256k1, Ed448 - canonical, and occasionally cut
    // short or padded. The layout rule does not look inside the key.
    if src.chance(1, 4) {
        let kv = |k: i64, v: Value| (Value::int(k), v);
        let (kty, alg, crv, cl, two): (u64, i64, u64, usize, bool) = *src.pick(&[(2, -7, 1, 32, true), (1, -8, 6, 32, false), (2, -25, 1, 32, true), (2, -35, 2, 48, true), (2, -47, 8, 32, true), (1, -8, 7, 57, false)]);
        let mut m = vec![kv(1, Value::Uint(kty)), kv(3, Value::int(alg)), kv(-1, Value::Uint(crv)), kv(-2, Value::Bytes(src.bytes(cl)))];
        if two {
            m.push(kv(-3, Value::Bytes(src.bytes(cl))));
        }
        key = refcbor::encode(&Value::Map(m));
        match src.below(6) {
            0 => {
                key.pop();
            }
            1 => key.push(0),
            _ => {}
        }
        obs.label("key:cose-key");
    }
    // in the GetAssertion flavour the optional part can only be supplied as the empty marker
    let ga_marker = att && !mc;
    let att = att && mc;
    // model
    let mut model = rp.clone();
    model.push(want_flags);
    model.extend_from_slice(&count.to_be_bytes());
    let mut must_fail = false;
    if att {
        model.extend_from_slice(&aaguid);
        if id.len() > 65535 {
            must_fail = true;
        }
        model.extend_from_slice(&(id.len() as u16).to_be_bytes());
        model.extend_from_slice(&id);
        model.extend_from_slice(&key);
    }
    let fixed_len = model.len();
    let ext_bytes = refcbor::encode_canonical(&ext_model);
    if ext_present {
        model.extend_from_slice(&ext_bytes);
    }
    if model.len() > CAPACITY {
        must_fail = true;
    }
    let got = if mc {
        let ext = types::build_mc_ext(&ext_model).map_err(|e| Fail::new("C07:harness", e, json!({})))?;
        ctap2::make_credential::AuthenticatorData {
            rp_id_hash: &rp_hash,
            flags,
            sign_count: count,
            attested_credential_data: if att {
                Some(ctap2::make_credential::AttestedCredentialData { aaguid: &aaguid, credential_id: &id, credential_public_key: &key })
            } else {
                None
            },
            extensions: if ext_present { Some(ext) } else { None },
        }
        .serialize()
    } else {
        let ext = types::build_ga_ext_out(&ext_model).map_err(|e| Fail::new("C07:harness", e, json!({})))?;
        ctap2::get_assertion::AuthenticatorData {
            rp_id_hash: &rp_hash,
            flags,
            sign_count: count,
            attested_credential_data: if ga_marker { Some(ctap2::get_assertion::NoAttestedCredentialData) } else { None },
            extensions: if ext_present { Some(ext) } else { None },
        }
        .serialize()
    };
    if ga_marker {
        obs.label("get_assertion:marker-supplied");
    }
    let flavour = if mc { "make_credential" } else { "get_assertion" };
    let again = if mc {
        let ext = types::build_mc_ext(&ext_model).map_err(|e| Fail::new("C07:harness", e, json!({})))?;
        ctap2::make_credential::AuthenticatorData {
            rp_id_hash: &rp_hash,
            flags,
            sign_count: count,
            attested_credential_data: if att {
                Some(ctap2::make_credential::AttestedCredentialData { aaguid: &aaguid, credential_id: &id, credential_public_key: &key })
            } else {
                None
            },
            extensions: if ext_present { Some(ext) } else { None },
        }
        .serialize()
    } else {
        let ext = types::build_ga_ext_out(&ext_model).map_err(|e| Fail::new("C07:harness", e, json!({})))?;
        ctap2::get_assertion::AuthenticatorData { rp_id_hash: &rp_hash, flags, sign_count: count, attested_credential_data: None, extensions: if ext_present { Some(ext) } else { None } }.serialize()
    };
    if again != got {
        return Err(Fail::new(format!("C07:{}:not-deterministic", flavour), "serialising an equal value twice gives different results".to_string(), json!({})));
    }
    obs.labelf(format!("flavour:{}", flavour));
    obs.labelf(format!("flags:{:02x}", want_flags));
    if att {
        obs.label("attested-present");
    }
    if ext_present {
        obs.label("extensions-present");
    }
    let dist = model.len() as i64 - CAPACITY as i64;
    if (-2..=0).contains(&dist) {
        obs.label("frontier:fits-within-2");
    } else if (1..=2).contains(&dist) {
        obs.label("frontier:overflow-within-2");
    }
    if id.len() > 65535 {
        obs.label("id>65535");
    }
    obs.label(if must_fail { "expect:error" } else { "expect:bytes" });
    if att || ext_present {
        obs.nontrivial(&[&model[..model.len().min(2000)], &(model.len() as u32).to_le_bytes(), flavour.as_bytes()]);
    }
    let case = || {
        json!({"flavour": flavour, "flags": format!("0x{:02x}", want_flags), "sign_count": count, "attested": att, "aaguid_len": aaguid.len(),
               "credential_id_len": id.len(), "public_key_len": key.len(), "extensions": if ext_present { refcbor::diag(&ext_model) } else { "absent".into() },
               "expected_len": model.len(), "expected_hex": hex(&model[..model.len().min(120)])})
    };
    obs.case_with(case);
    obs.sample_with(case);
    let sigbase = format!("C07:{}", flavour);
    match (got, must_fail) {
        (Err(_), true) => Ok(()),
        (Ok(b), true) => Err(Fail::new(
            format!("{}:oversize-accepted:{}", sigbase, if id.len() > 65535 { "id>65535" } else { "total>676" }),
            format!("expected an error (model is {} bytes, credential id {} bytes) but got {} bytes", model.len(), id.len(), b.len()),
            case(),
        )),
        (Err(e), false) => Err(Fail::new(
            format!("{}:fitting-rejected", sigbase),
            format!("{} bytes fit the 676-byte capacity but serialize failed with {:?}", model.len(), e),
            case(),
        )),
        (Ok(b), false) => {
            let b = b.to_vec();
            if b.len() < fixed_len || b[..fixed_len] != model[..fixed_len] {
                let first = b.iter().zip(model.iter()).position(|(x, y)| x != y).unwrap_or(b.len().min(model.len()));
                let part = match first {
                    0..=31 => "rpIdHash",
                    32 => "flags",
                    33..=36 => "signCount",
                    _ if att && first < 37 + aaguid.len() => "aaguid",
                    _ if att && first < 39 + aaguid.len() => "credentialIdLength",
                    _ if att && first < 39 + aaguid.len() + id.len() => "credentialId",
                    _ => "credentialPublicKey/length",
                };
                let mut c = case();
                c["got_hex"] = json!(hex(&b[..b.len().min(120)]));
                return Err(Fail::new(format!("{}:layout:{}", sigbase, part), format!("output differs from the WebAuthn layout at offset {} ({}); got {} bytes expected {}", first, part, b.len(), model.len()), c));
            }
            let tail = &b[fixed_len..];
            if !ext_present {
                if !tail.is_empty() {
                    return Err(Fail::new(format!("{}:trailing-bytes", sigbase), format!("{} unexpected trailing bytes", tail.len()), case()));
                }
                return Ok(());
            }
            let parsed = refcbor::parse_strict(tail).map_err(|e| Fail::new(format!("{}:extensions-not-cbor", sigbase), e.0, case()))?;
            if !matches!(parsed, Value::Map(_)) {
                return Err(Fail::new(format!("{}:extensions-not-a-map", sigbase), "tail is not a map".to_string(), case()));
            }
            refcbor::eq_unordered(&ext_model, &parsed).map_err(|m| Fail::new(format!("{}:extensions-content", sigbase), m, case()))?;
            if b.len() != model.len() {
                return Err(Fail::new(format!("{}:length", sigbase), format!("length {} vs {}", b.len(), model.len()), case()));
            }
            Ok(())
        }
    }
}

pub const G_AD: Gen = Gen { name: "c07_authdata", f: g_authdata };

pub fn gens() -> Vec<Gen> {
    vec![G_AD, G_GENERIC]
}

pub const RULE: &str = "Deterministic grid: both flavours x attested data absent/present x aaguid length {16,0,17,15,1} x credential-id length EVERY value 0..=700 and 65535/65536/70000 x public-key length {0,32,77,256,300,600,621,622,639,640} x extensions absent/present, with the 16 flag subsets, the six counters 0,1,0xFF,0x100,0x01020304,0xFFFFFFFF and the extension-member subsets rotating so that each is combined with many lengths; plus proptest cases over all of these jointly with random contents and random counters; GetAssertion also with the empty attested-data marker supplied; and the generic AuthenticatorData<A, E> with a caller-supplied extension type (a reference value handed to serde) encoding maps of every size 0..=60 (the map head widens at 24) with integer/text keys and nested values. Oracle: rpIdHash || flags (UP=0x01 UV=0x04 AT=0x40 ED=0x80) || signCount BE || [aaguid || u16 BE length || id || key] compared byte for byte, then the extension map compared as a parsed map (its key order is C03's business) with no trailing bytes; if the credential id exceeds 65535 bytes or the total exceeds 676 bytes the call must fail (the error code is not asserted), otherwise it must succeed; never a panic. Non-trivial: attested data or extensions present; the histogram reports cases within 2 bytes of the 676-byte frontier on each side.";
pub const ASSUMPTIONS: &[&str] = &["WebAuthn section 6.1 layout and flag bits transcribed into the model", "the specific error code on overflow is not asserted (the statement only says 'fails with an error')"];

/// The struct is generic over the extension-output type: any caller-supplied `Serialize` value
/// that encodes as a CBOR map. Maps of 0..=60 entries (23/24 is where the map head widens), nested
/// values, text and integer keys; both attested-data types.
/// words: [flavour, attested, entry count (raw), key style, id length (raw), flags, values...]
fn g_generic(src: &mut Src, obs: &mut Obs) -> CaseResult {
    let mc = src.bool();
    let att = src.bool();
    let n = (src.word() as usize) % 61;
    let style = src.below(3);
    let id_len = (src.word() as usize) % 400;
    let fl = src.word() & 15;
    let mut entries: Vec<(Value, Value)> = vec![];
    for i in 0..n {
        let k = match style {
            0 => Value::Uint(i as u64),
            1 => Value::text(&format!("k{:02}", i)),
            _ => {
                if i % 2 == 0 {
                    Value::Uint(i as u64)
                } else {
                    Value::text(&format!("ext{}", i))
                }
            }
        };
        let v = match src.below(5) {
            0 => Value::Bool(src.bool()),
            1 => Value::Uint(src.below(300) as u64),
            2 => Value::Bytes(src.bytes(i % 5)),
            3 => Value::Map(vec![(Value::Uint(1), Value::Bool(true))]),
            _ => Value::Array(vec![Value::Uint(1), Value::text("x")]),
        };
        entries.push((k, v));
    }
    let ext = Value::Map(entries);
    let rp_hash = [0x5Au8; 32];
    let aaguid = [0xA1u8; 16];
    let id: Vec<u8> = (0..id_len).map(|i| i as u8).collect();
    let key = [0xC5u8; 77];
    let mut flags = F::empty();
    let mut want_flags = 0u8;
    for (bitn, f, w) in [(1u32, F::USER_PRESENCE, 1u8), (2, F::USER_VERIFIED, 4), (4, F::ATTESTED_CREDENTIAL_DATA, 0x40), (8, F::EXTENSION_DATA, 0x80)] {
        if fl & bitn != 0 {
            flags |= f;
            want_flags |= w;
        }
    }
    let mut model = rp_hash.to_vec();
    model.push(want_flags);
    model.extend_from_slice(&7u32.to_be_bytes());
    if mc && att {
        model.extend_from_slice(&aaguid);
        model.extend_from_slice(&(id.len() as u16).to_be_bytes());
        model.extend_from_slice(&id);
        model.extend_from_slice(&key);
    }
    let fixed = model.len();
    // serde emits the entries in the order given: the reference encoding in that order
    model.extend_from_slice(&refcbor::encode(&ext));
    let must_fail = model.len() > CAPACITY;
    let got = if mc {
        ctap2::AuthenticatorData {
            rp_id_hash: &rp_hash,
            flags,
            sign_count: 7,
            attested_credential_data: if att { Some(ctap2::make_credential::AttestedCredentialData { aaguid: &aaguid, credential_id: &id, credential_public_key: &key }) } else { None },
            extensions: Some(&ext),
        }
        .serialize()
        .map(|b| b.to_vec())
        .map_err(|e| e as u8)
    } else {
        ctap2::AuthenticatorData { rp_id_hash: &rp_hash, flags, sign_count: 7, attested_credential_data: if att { Some(ctap2::get_assertion::NoAttestedCredentialData) } else { None }, extensions: Some(&ext) }
            .serialize()
            .map(|b| b.to_vec())
            .map_err(|e| e as u8)
    };
    obs.label("generic-extension-type");
    obs.labelf(format!("generic:entries:{}", match n { 0 => "0", 1..=23 => "1..23", 24 => "24", _ => ">24" }));
    let near = (model.len() as i64 - CAPACITY as i64).abs() <= 2;
    if n >= 2 || near {
        obs.nontrivial(&[b"generic", &model]);
    }
    let case = json!({"flavour": if mc { "make_credential" } else { "get_assertion" }, "attested": att, "extension_entries": n, "credential_id_len": id_len, "total_len": model.len(), "extensions": refcbor::diag(&ext)});
    obs.case_with(|| case.clone());
    match (must_fail, got) {
        (true, Err(_)) => Ok(()),
        (true, Ok(b)) => Err(Fail::new("C07:generic:overflow-not-reported", format!("{} bytes do not fit {} but serialize returned {} bytes", model.len(), CAPACITY, b.len()), case)),
        (false, Err(e)) => Err(Fail::new(
            format!("C07:generic:fitting-data-rejected:{}", if n >= 24 { "map-head-2-bytes" } else { "map-head-1-byte" }),
            format!("authenticator data of {} bytes with a {}-entry extension map was rejected with 0x{:02x}", model.len(), n, e),
            case,
        )),
        (false, Ok(b)) => {
            if b != model {
                let at = b.iter().zip(model.iter()).position(|(x, y)| x != y).unwrap_or(b.len().min(model.len()));
                return Err(Fail::new(
                    format!("C07:generic:bytes-differ:{}", if at < fixed { "fixed-part" } else { "extension-map" }),
                    format!("output differs from the layout at offset {} (got {} bytes, expected {})", at, b.len(), model.len()),
                    case,
                ));
            }
            Ok(())
        }
    }
}
pub const G_GENERIC: Gen = Gen { name: "c07_generic", f: g_generic };

pub fn run(ctx: &mut Ctx) {
    let id_lens: Vec<u32> = (0..=700u32).chain([65535, 65536, 70000]).collect();
    let mut items: Vec<Vec<u32>> = vec![];
    let mut rot: u32 = 0;
    for mc in [true, false] {
        for att in [false, true] {
            if !mc && att {
                // GetAssertion with the (empty) attested-data marker supplied: one case per flag/ext combination
                for ext in [false, true] {
                    for fl in 0..16u32 {
                        let mut w = vec![bit(false), fl, idx((fl as usize) % 7, 7), bit(true), 0, 0, 0, bit(ext)];
                        for b in 0..4 {
                            w.push(bit((fl >> b) & 1 == 1));
                        }
                        for z in 0..24u32 {
                            w.push(fl.wrapping_mul(2654435761).wrapping_add(z.wrapping_mul(0x9E3779B9)));
                        }
                        items.push(w);
                    }
                }
                continue;
            }
            for ai in 0..AAGUID_LENS.len() {
                if !att && ai > 0 {
                    continue;
                }
                for &idl in &id_lens {
                    if !att && idl > 0 {
                        continue;
                    }
                    for ki in 0..KEY_LENS.len() {
                        if !att && ki > 0 {
                            continue;
                        }
                        for ext in [false, true] {
                            rot = rot.wrapping_add(1);
                            let nb = 4;
                            let mut w = vec![bit(mc), rot & 15, idx((rot as usize / 3) % 7, 7), bit(att), idx(ai, AAGUID_LENS.len()), idl, idx(ki, KEY_LENS.len()), bit(ext)];
                            for b in 0..nb {
                                w.push(bit((rot >> (4 + b)) & 1 == 1));
                            }
                            for z in 0..24u32 {
                                w.push(rot.wrapping_mul(2654435761).wrapping_add(z.wrapping_mul(0x9E3779B9)));
                            }
                            items.push(w);
                        }
                    }
                }
            }
        }
    }
    // without attested data: all 16 flags x 7 counters x ext subsets
    for mc in [true, false] {
        for fl in 0..16u32 {
            for ci in 0..7usize {
                for em in 0..16u32 {
                    let mut w = vec![bit(mc), fl, idx(ci, 7), bit(false), 0, 0, 0, bit(true)];
                    for b in 0..4 {
                        w.push(bit((em >> b) & 1 == 1));
                    }
                    for z in 0..24u32 {
                        w.push((fl * 977 + em * 131 + ci as u32).wrapping_mul(2654435761).wrapping_add(z.wrapping_mul(0x9E3779B9)));
                    }
                    items.push(w);
                }
            }
        }
    }
    ctx.enumerate(&G_AD, items.into_iter());
    ctx.exhaustive.push("credential-id length 0..=700 and 65535/65536/70000 x aaguid length x key length x extensions x flavour; all 16 flag subsets x 7 counters x 16 extension subsets".into());
    if ctx.too_many() {
        return;
    }
    ctx.random(&G_AD, &[], ctx.t(150_000, 2_000_000), 120);
    // caller-supplied extension types: every entry count 0..=60 x flavour x attested, then random
    let mut gi: Vec<Vec<u32>> = vec![];
    for mc in [true, false] {
        for att in [true, false] {
            for n in 0..=60u32 {
                for style in 0..3 {
                    gi.push(vec![bit(mc), bit(att), n, idx(style, 3), n * 5, n, n.wrapping_mul(2654435761), n ^ 0x55AA_1234]);
                }
            }
        }
    }
    ctx.enumerate(&G_GENERIC, gi.into_iter());
    ctx.random(&G_GENERIC, &[], ctx.t(20_000, 300_000), 100);
    ctx.require(&["generic-extension-type", "generic:entries:24", "generic:entries:>24", "generic:entries:1..23"]);
    ctx.require(&[
        "flavour:make_credential", "flavour:get_assertion", "get_assertion:marker-supplied", "attested-present", "extensions-present", "frontier:fits-within-2",
        "frontier:overflow-within-2", "id>65535", "expect:error", "expect:bytes", "flags:00", "flags:c5", "key:cose-key", "flags:built-by-complement",
    ]);
}
