//! C11 — the command-byte table is total, exact and invertible.

use crate::props::c04;
use crate::refcbor::{self, Value};
use crate::reqmodel::*;
use crate::run::{idx, CaseResult, Ctx, Fail, Gen, Obs};
use crate::util::{hex, Src};
use ctap_types::ctap2::{Error, Operation, Request, VendorOperation};
use serde_json::json;

/// CTAP 2.1 command codes (authenticator API table) incl. the two prototype codes
const ASSIGNED: [u8; 13] = [0x01, 0x02, 0x04, 0x06, 0x07, 0x08, 0x09, 0x0A, 0x0B, 0x0C, 0x0D, 0x40, 0x41];

fn is_vendor(b: u8) -> bool {
    (0x40..=0x7F).contains(&b) && b != 0x40 && b != 0x41
}

fn payload(kind: usize, src: &mut Src) -> Vec<u8> {
    let mut info = Info::default();
    match kind {
        0 => vec![],
        1 => refcbor::encode_canonical(&gen_mc(src, &mut info)),
        2 => refcbor::encode_canonical(&gen_ga(src, &mut info)),
        3 => refcbor::encode_canonical(&gen_cp(src, &mut info)),
        4 => refcbor::encode_canonical(&gen_cm(src, &mut info)),
        5 => refcbor::encode_canonical(&gen_lb(src, &mut info)),
        6 => {
            // truncated valid CBOR
            let mut b = refcbor::encode_canonical(&gen_cm(src, &mut info));
            let n = src.below(b.len().max(1));
            b.truncate(n);
            b
        }
        7 => vec![0xFF, 0xFF, 0x1F, 0x00],
        10 => {
            // a credential-management parameter map with one structural change: a (required or
            // optional) member removed at some level, a value of another type, or the empty map
            let mut v = gen_cm(src, &mut info);
            match src.below(4) {
                0 => Value::Map(vec![]),
                1 | 2 => {
                    let paths = crate::mutate::walk(&v);
                    let p = paths[src.below(paths.len())].clone();
                    if !p.is_empty() {
                        crate::mutate::remove(&mut v, &p);
                    }
                    v
                }
                _ => {
                    let paths = crate::mutate::walk(&v);
                    let p = paths[src.below(paths.len())].clone();
                    if let Some(n) = crate::mutate::get_mut(&mut v, &p) {
                        *n = crate::mutate::palette(src.below(7));
                    }
                    v
                }
            }
            .pipe_encode()
        }
        11 => {
            // exactly one complete, well-formed CBOR item of arbitrary shape and nesting depth
            let depth = *src.pick(&[0usize, 1, 3, 4, 5, 6, 8, 16, 17, 18, 32, 33, 100, 1000, 5000]);
            let kind = src.below(4);
            let v = if kind == 3 && depth <= 16 { crate::mutate::any_value(src, depth.min(6)) } else { crate::mutate::nest(Value::Uint(0), depth, kind) };
            refcbor::encode(&v)
        }
        12 => {
            // a complete CTAP2 message wrapped the way transports wrap it: an ISO 7816 APDU with the
            // NFCCTAP_MSG instruction (short / extended form, with / without Le), a CTAPHID-style
            // length prefix, or simply repeated. Whatever follows the first byte must not matter.
            let inner: Vec<u8> = match src.below(4) {
                0 => vec![0x04],
                1 => vec![0x0A, 0xA1, 0x01, 0x01],
                2 => vec![0x08],
                _ => vec![0x06, 0xA2, 0x01, 0x01, 0x02, 0x01],
            };
            let mut p = vec![];
            match src.below(5) {
                0 => {
                    p.extend_from_slice(&[0x10, *src.pick(&[0x00u8, 0x80]), 0x00, inner.len() as u8]);
                    p.extend_from_slice(&inner);
                }
                1 => {
                    p.extend_from_slice(&[0x10, 0x00, 0x00, inner.len() as u8]);
                    p.extend_from_slice(&inner);
                    p.push(0x00);
                }
                2 => {
                    p.extend_from_slice(&[0x10, 0x00, 0x00, 0x00, 0x00, inner.len() as u8]);
                    p.extend_from_slice(&inner);
                    if src.bool() {
                        p.extend_from_slice(&[0x00, 0x00]);
                    }
                }
                3 => {
                    p.extend_from_slice(&[0x00, inner.len() as u8]);
                    p.extend_from_slice(&inner);
                }
                _ => {
                    p.extend_from_slice(&inner);
                    p.extend_from_slice(&inner);
                }
            }
            p
        }
        13 => {
            // a well-formed credential-management parameter map carrying an unknown member (any
            // value: nested containers, tags, floats, simple values) inside one of its text-keyed maps
            let mut v = gen_cm(src, &mut info);
            let hosts: Vec<crate::mutate::Path> = crate::mutate::maps(&v).into_iter().filter(|p| p.len() >= 2).collect();
            if !hosts.is_empty() {
                let hp = hosts[src.below(hosts.len())].clone();
                let val = match src.below(4) {
                    0 => Value::Tag(1, Box::new(Value::Uint(1_694_498_816))),
                    1 => Value::Tag(6, Box::new(Value::Array(vec![Value::text("nfc")]))),
                    _ => crate::mutate::any_value(src, 3),
                };
                if let Some(Value::Map(m)) = crate::mutate::get_mut(&mut v, &hp) {
                    let pos = src.below(m.len() + 1);
                    m.insert(pos, (Value::text(*src.pick(&["extra", "transports", "zz"])), val));
                }
            }
            refcbor::encode(&v)
        }
        9 => {
            // trailing data up to and beyond the maximum message size (total 7609 / 7610 / far more)
            let n = *src.pick(&[7607usize, 7608, 7609, 7610, 9000, 20_000, 70_000]);
            let b = src.byte();
            vec![b; n]
        }
        _ => {
            let n = src.range(1, 64);
            src.bytes(n)
        }
    }
}
const PAYLOAD_KINDS: usize = 14;

trait PipeEncode {
    fn pipe_encode(self) -> Vec<u8>;
}
impl PipeEncode for Value {
    fn pipe_encode(self) -> Vec<u8> {
        refcbor::encode_canonical(&self)
    }
}

/// words: [byte (raw), payload kind, payload values...]
fn g_byte(src: &mut Src, obs: &mut Obs) -> CaseResult {
    let b = (src.word() & 0xFF) as u8;
    let kind = src.below(PAYLOAD_KINDS);
    let p = payload(kind, src);
    let mut msg = vec![b];
    msg.extend_from_slice(&p);
    let fail = |what: &str, m: String| {
        Fail::new(format!("C11:0x{:02x}:{}", b, what), m, json!({"byte": format!("0x{:02x}", b), "input_hex": hex(&msg)}))
            .with_concrete("c11_concrete", msg.clone())
    };
    obs.case_with(|| json!({"input_hex": hex(&msg)}));
    let class = if ASSIGNED.contains(&b) {
        "assigned"
    } else if is_vendor(b) {
        "vendor"
    } else {
        "unassigned"
    };
    obs.labelf(format!("byte-class:{}", class));
    obs.labelf(format!("payload-kind:{}", kind));
    obs.nontrivial(&[&msg]);
    // table, forward and back
    let op = Operation::try_from(b);
    let recognised = ASSIGNED.contains(&b) || is_vendor(b);
    match (&op, recognised) {
        (Ok(o), true) => {
            let back = o.into_u8();
            if back != b {
                return Err(fail("not-invertible", format!("byte 0x{:02x} -> {:?} -> 0x{:02x}", b, o, back)));
            }
            let back2: u8 = (*o).into();
            if back2 != b {
                return Err(fail("not-invertible", format!("byte 0x{:02x} -> {:?} -> 0x{:02x} (Into<u8>)", b, o, back2)));
            }
            let is_v = matches!(o, Operation::Vendor(_));
            if is_v != is_vendor(b) {
                return Err(fail("vendor-range", format!("byte 0x{:02x} maps to {:?}", b, o)));
            }
        }
        (Err(_), false) => {}
        (Ok(o), false) => return Err(fail("recognised-unassigned", format!("unassigned byte 0x{:02x} recognised as {:?}", b, o))),
        (Err(_), true) => return Err(fail("assigned-not-recognised", format!("assigned byte 0x{:02x} not recognised", b))),
    }
    // vendor operation type: exactly 0x40..=0x7F
    let v = VendorOperation::try_from(b);
    if v.is_ok() != (0x40..=0x7F).contains(&b) {
        return Err(fail("vendor-operation-range", format!("VendorOperation::try_from(0x{:02x}) is_ok={}", b, v.is_ok())));
    }
    if let Ok(v) = v {
        if u8::from(v) != b {
            return Err(fail("vendor-operation-value", format!("VendorOperation 0x{:02x} converts back to 0x{:02x}", b, u8::from(v))));
        }
    }
    // decoding
    let r = Request::deserialize(&msg);
    let shown = match &r {
        Ok(q) => variant_name(q).to_string(),
        Err(e) => format!("Err(0x{:02x})", *e as u8),
    };
    let ok = match b {
        0x04 => matches!(r, Ok(Request::GetInfo)),
        0x07 => matches!(r, Ok(Request::Reset)),
        0x08 => matches!(r, Ok(Request::GetNextAssertion)),
        0x0B => matches!(r, Ok(Request::Selection)),
        x if is_vendor(x) => matches!(&r, Ok(Request::Vendor(v)) if u8::from(*v) == b),
        0x09 | 0x0D | 0x40 => matches!(r, Err(Error::InvalidCommand)),
        0x01 | 0x02 | 0x06 | 0x0A | 0x0C | 0x41 => {
            // parameter-bearing: outcome depends on the payload; judged by C01/C05. Here: the
            // variant must be the command's when accepted, and 0x41 must behave exactly like 0x0A
            match &r {
                Ok(q) => {
                    let want = match b {
                        0x01 => "MakeCredential",
                        0x02 => "GetAssertion",
                        0x06 => "ClientPin",
                        0x0C => "LargeBlobs",
                        _ => "CredentialManagement",
                    };
                    variant_name(q) == want
                }
                Err(e) => *e != Error::InvalidCommand,
            }
        }
        _ => matches!(r, Err(Error::InvalidCommand)),
    };
    if !ok {
        return Err(fail("decode", format!("[0x{:02x}] || {} payload bytes (kind {}) decoded to {}", b, p.len(), kind, shown)));
    }
    if b == 0x41 || b == 0x0A {
        let mut alt = msg.clone();
        alt[0] = if b == 0x41 { 0x0A } else { 0x41 };
        let r2 = Request::deserialize(&alt);
        if r != r2 {
            return Err(fail("alias-0x41", format!("0x41 and 0x0A decode the same payload differently: {} vs {:?}", shown, r2.as_ref().map(variant_name))));
        }
    }
    obs.sample_with(|| json!({"byte": format!("0x{:02x}", b), "payload_kind": kind, "payload_len": p.len(), "decoded": shown}));
    Ok(())
}

/// whole-table check: no two bytes share an operation
fn g_table(_src: &mut Src, obs: &mut Obs) -> CaseResult {
    obs.label("table-injectivity");
    let ops: Vec<(u8, Operation)> = (0..=255u8).filter_map(|b| Operation::try_from(b).ok().map(|o| (b, o))).collect();
    for (i, (b1, o1)) in ops.iter().enumerate() {
        for (b2, o2) in ops.iter().skip(i + 1) {
            obs.sub_evals += 1;
            if o1 == o2 {
                return Err(Fail::new(
                    format!("C11:shared-operation:0x{:02x}:0x{:02x}", b1, b2),
                    format!("bytes 0x{:02x} and 0x{:02x} map to the same operation {:?}", b1, b2, o1),
                    json!({}),
                ));
            }
        }
    }
    obs.nontrivial(&[b"table"]);
    if ops.len() != ASSIGNED.len() + 62 {
        return Err(Fail::new("C11:recognised-count", format!("{} bytes recognised, expected {}", ops.len(), ASSIGNED.len() + 62), json!({})));
    }
    Ok(())
}

fn g_concrete(src: &mut Src, obs: &mut Obs) -> CaseResult {
    let msg = crate::run::unpack_bytes(src);
    if msg.is_empty() {
        return Ok(());
    }
    // re-run the byte case on this exact message: byte raw, kind 8 can not reproduce the payload,
    // so only the payload-independent parts and the decode rule are re-checked
    let mut words = vec![msg[0] as u32, idx(0, PAYLOAD_KINDS)];
    words.extend_from_slice(&[0; 4]);
    let _ = c04::status_of(&msg);
    let mut s = Src::new(&words);
    g_byte(&mut s, obs)
}

pub const G_BYTE: Gen = Gen { name: "c11_byte", f: g_byte };
pub const G_TABLE: Gen = Gen { name: "c11_table", f: g_table };
pub const G_CONCRETE: Gen = Gen { name: "c11_concrete", f: g_concrete };

pub fn gens() -> Vec<Gen> {
    vec![G_BYTE, G_TABLE, G_CONCRETE]
}

pub const RULE: &str = "Exhaustive over all 256 first bytes x 14 payload classes (a credential-management map with an unknown member holding tags / nested values; exactly one well-formed CBOR item of arbitrary shape and depth; a complete CTAP2 message wrapped as an NFCCTAP_MSG APDU / length-prefixed / repeated; a credential-management parameter map with a member removed at some level / a value of another type / empty; very long trailing data up to 70 000 bytes; empty; the valid payload of each of the five parameter-bearing commands; truncated CBOR; malformed CBOR; random bytes), with proptest supplying the payload values; plus one whole-table case checking pairwise distinctness of the operations of all recognised bytes. Oracle: the specification table (assigned = 01,02,04,06,07,08,09,0A,0B,0C,0D,40,41; vendor = 0x42..0x7F): Operation::try_from is Ok exactly on assigned+vendor and converts back to the same byte; VendorOperation::try_from accepts exactly 0x40..0x7F; parameter-less commands decode from their byte alone whatever follows; 0x41||p and 0x0A||p decode identically; 09/0D/40 and every unassigned byte give InvalidCommand whatever follows. Every case is non-trivial (each byte/payload pair is a distinct table probe).";
pub const ASSUMPTIONS: &[&str] = &["the assigned-code table is transcribed from CTAP 2.1 section 6 and the FIDO prototype codes 0x40/0x41"];

pub fn run(ctx: &mut Ctx) {
    for b in 0..256u32 {
        for k in 0..PAYLOAD_KINDS {
            ctx.random(&G_BYTE, &[b, idx(k, PAYLOAD_KINDS)], ctx.t(3, 64), 700);
        }
        if ctx.too_many() {
            return;
        }
    }
    // the 0x41 alias with every credential-management sub-command and every presence subset
    for b in [0x41u32, 0x0A] {
        ctx.random(&G_BYTE, &[b, idx(4, PAYLOAD_KINDS)], ctx.t(400, 10_000), 700);
        ctx.random(&G_BYTE, &[b, idx(10, PAYLOAD_KINDS)], ctx.t(1500, 30_000), 700);
        ctx.random(&G_BYTE, &[b, idx(13, PAYLOAD_KINDS)], ctx.t(1500, 30_000), 700);
    }
    ctx.enumerate(&G_TABLE, std::iter::once(vec![]));
    ctx.exhaustive.push("all 256 command bytes x 14 payload classes; all pairs of recognised bytes".into());
    ctx.require(&["byte-class:assigned", "byte-class:vendor", "byte-class:unassigned", "table-injectivity"]);
}
