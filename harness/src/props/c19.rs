//! C19 — generated fuzzing inputs (`arbitrary` feature) are always memory-safe, valid requests.

use crate::run::{CaseResult, Ctx, Gen, Obs};
use crate::util::Src;

pub const RULE: &str = "Configurations `arbitrary` and all-features+`arbitrary`. Inputs of length 0..=4096 (layout-aware ones up to about 7.4 kB): all-zero, all-0xFF and every single-byte-repeated pattern (256 patterns x a ladder of lengths; thorough: every length), and proptest byte strings assembled from a weighted mix of uniform bytes, ASCII, well-formed 2/3/4-byte UTF-8 sequences and ill-formed pieces (lone continuation bytes, truncated leads, overlongs, surrogates, 0xF8..0xFF), with length-prefix-like words biased towards capacities. plus layout-aware inputs that follow the order in which the hand-written Arbitrary impls consume data (variant selector, 8-byte little-endian length, text window, lengths of borrowed strings at the end of the input) with the declared length at capacity-3..capacity+7 and the window end before, inside or after a multi-byte character whose remaining bytes follow. Each input is fed to <ctap1::Request>, <ctap2::Request> and <authenticator::Request as Arbitrary>::arbitrary and, separately, ::arbitrary_take_rest. Oracle: no panic/abort; Err is NotEnoughData; Ok(req): a harness-side walker visits every public field - every String<N> and &str passes core::str::from_utf8 on its raw bytes, every String/Bytes/Vec is within its capacity, every borrowed member (&[u8], &str, &[u8; N], &ByteArray<N>) points into the input buffer it borrows from, known formats <= 2, filtered parameters <= 2 with alg in {-7,-8}; Debug-formatting, clone and == clone complete and agree; == against a sibling value generated from the same input with its later bytes inverted, and against values derived by editing public members (a list shortened to a proper prefix / emptied / dropped, optional members dropped), is symmetric and never claims equality for values whose Debug renderings differ, and clone_from between such values produces exact copies in both directions; dispatching through the C10 recording mock returns. Non-trivial: an Ok result whose input contained a non-ASCII byte (the unchecked UTF-8 path may have been taken) or which holds a bounded field at capacity; distinct by (entry point, input).";
pub const ASSUMPTIONS: &[&str] = &[
    "VendorOperation's derived Arbitrary can yield codes outside 0x40..0x7F; the statement's validity list does not include the vendor range, so it is recorded, not asserted",
    "an invalid str that happens not to crash is only visible to from_utf8 on the raw bytes (and to Miri in the thorough tier)",
];

#[cfg(not(feature = "arb"))]
fn g_stub(_s: &mut Src, o: &mut Obs) -> CaseResult {
    o.excluded = true;
    Ok(())
}

#[cfg(not(feature = "arb"))]
pub fn gens() -> Vec<Gen> {
    vec![Gen { name: "c19_stub", f: g_stub }]
}

#[cfg(not(feature = "arb"))]
pub fn run(ctx: &mut Ctx) {
    ctx.note("C19 needs the `arb` configuration (ctap-types feature `arbitrary`); nothing executed in this configuration");
}

#[cfg(feature = "arb")]
pub use with_arb::{gens, run};

#[cfg(feature = "arb")]
mod with_arb {
    use super::*;
    use crate::run::{idx, Fail};
    use crate::util::hex;
    use arbitrary::{Arbitrary, Unstructured};
    use ctap_types::{authenticator, ctap1, ctap2};
    use serde_json::json;

    struct Walk {
        at_capacity: bool,
        vendor_out_of_range: bool,
        /// address range of the input the request was generated from: every borrowed member
        /// (`&'a [u8]`, `&'a str`, `&'a [u8; N]`, `&'a ByteArray<N>`) must point into it
        input: (usize, usize),
    }

    /// a borrowed, non-empty member must lie inside the input buffer it claims to borrow from
    fn borrowed(w: &Walk, what: &str, ptr: *const u8, len: usize) -> W {
        if len == 0 {
            return Ok(());
        }
        let (lo, hi) = w.input;
        let p = ptr as usize;
        if p < lo || p.checked_add(len).map(|e| e > hi).unwrap_or(true) {
            return Err(format!("{}: borrowed member ({} bytes at {:#x}) does not point into the input buffer ({:#x}..{:#x})", what, len, p, lo, hi));
        }
        Ok(())
    }

    type W = Result<(), String>;

    fn utf8(what: &str, b: &[u8]) -> W {
        core::str::from_utf8(b).map(|_| ()).map_err(|e| format!("{}: text field is not valid UTF-8 ({})", what, e))
    }
    fn hs<const N: usize>(w: &mut Walk, what: &str, s: &ctap_types::String<N>) -> W {
        utf8(what, s.as_bytes())?;
        if s.len() > N {
            return Err(format!("{}: {} bytes exceed capacity {}", what, s.len(), N));
        }
        if s.len() == N {
            w.at_capacity = true;
        }
        Ok(())
    }
    fn hb<const N: usize>(w: &mut Walk, what: &str, b: &ctap_types::Bytes<N>) -> W {
        if b.len() > N {
            return Err(format!("{}: {} bytes exceed capacity {}", what, b.len(), N));
        }
        if b.len() == N {
            w.at_capacity = true;
        }
        Ok(())
    }
    fn user(w: &mut Walk, what: &str, u: &ctap_types::webauthn::PublicKeyCredentialUserEntity) -> W {
        hb(w, &format!("{}.id", what), &u.id)?;
        if let Some(s) = &u.icon {
            hs(w, &format!("{}.icon", what), s)?;
        }
        if let Some(s) = &u.name {
            hs(w, &format!("{}.name", what), s)?;
        }
        if let Some(s) = &u.display_name {
            hs(w, &format!("{}.displayName", what), s)?;
        }
        Ok(())
    }
    fn desc(w: &mut Walk, what: &str, d: &ctap_types::webauthn::PublicKeyCredentialDescriptorRef) -> W {
        utf8(&format!("{}.type", what), d.key_type.as_bytes())?;
        borrowed(w, &format!("{}.type", what), d.key_type.as_ptr(), d.key_type.len())?;
        borrowed(w, &format!("{}.id", what), d.id.as_ptr(), d.id.len())
    }
    fn formats(w: &mut Walk, what: &str, f: &ctap2::AttestationFormatsPreference) -> W {
        if f.known_formats().len() > 2 {
            return Err(format!("{}: {} known formats", what, f.known_formats().len()));
        }
        if f.known_formats().len() == 2 {
            w.at_capacity = true;
        }
        Ok(())
    }
    fn cose(w: &mut Walk, what: &str, k: &cosey::EcdhEsHkdf256PublicKey) -> W {
        hb(w, &format!("{}.x", what), &k.x)?;
        hb(w, &format!("{}.y", what), &k.y)
    }

    fn walk2(w: &mut Walk, r: &ctap2::Request) -> W {
        match r {
            ctap2::Request::MakeCredential(m) => {
                borrowed(w, "clientDataHash", m.client_data_hash.as_ptr(), m.client_data_hash.len())?;
                if let Some(p) = m.pin_auth {
                    borrowed(w, "pinAuth", p.as_ptr(), p.len())?;
                }
                hs(w, "rp.id", &m.rp.id)?;
                if let Some(n) = &m.rp.name {
                    hs(w, "rp.name", n)?;
                }
                user(w, "user", &m.user)?;
                if m.pub_key_cred_params.0.len() > 2 {
                    return Err("pubKeyCredParams: more than two entries".into());
                }
                for p in m.pub_key_cred_params.0.iter() {
                    if p.alg != -7 && p.alg != -8 {
                        return Err(format!("pubKeyCredParams: unknown algorithm {}", p.alg));
                    }
                }
                if let Some(l) = &m.exclude_list {
                    if l.len() > 16 {
                        return Err("excludeList over capacity".into());
                    }
                    if l.len() == 16 {
                        w.at_capacity = true;
                    }
                    for d in l.iter() {
                        desc(w, "excludeList[]", d)?;
                    }
                }
                if let Some(f) = &m.attestation_formats_preference {
                    formats(w, "attestationFormatsPreference", f)?;
                }
            }
            ctap2::Request::GetAssertion(g) => {
                utf8("rpId", g.rp_id.as_bytes())?;
                borrowed(w, "rpId", g.rp_id.as_ptr(), g.rp_id.len())?;
                borrowed(w, "clientDataHash", g.client_data_hash.as_ptr(), g.client_data_hash.len())?;
                if let Some(p) = g.pin_auth {
                    borrowed(w, "pinAuth", p.as_ptr(), p.len())?;
                }
                if let Some(l) = &g.allow_list {
                    if l.len() > 10 {
                        return Err("allowList over capacity".into());
                    }
                    if l.len() == 10 {
                        w.at_capacity = true;
                    }
                    for d in l.iter() {
                        desc(w, "allowList[]", d)?;
                    }
                }
                if let Some(e) = &g.extensions {
                    if let Some(h) = &e.hmac_secret {
                        cose(w, "hmac-secret.keyAgreement", &h.key_agreement)?;
                        hb(w, "hmac-secret.saltEnc", &h.salt_enc)?;
                        hb(w, "hmac-secret.saltAuth", &h.salt_auth)?;
                    }
                }
                if let Some(f) = &g.attestation_formats_preference {
                    formats(w, "attestationFormatsPreference", f)?;
                }
            }
            ctap2::Request::ClientPin(c) => {
                if let Some(k) = &c.key_agreement {
                    cose(w, "keyAgreement", k)?;
                }
                if let Some(s) = c.rp_id {
                    utf8("rpId", s.as_bytes())?;
                    borrowed(w, "rpId", s.as_ptr(), s.len())?;
                }
                for (n, m) in [("pinAuth", c.pin_auth), ("newPinEnc", c.new_pin_enc), ("pinHashEnc", c.pin_hash_enc)] {
                    if let Some(p) = m {
                        borrowed(w, n, p.as_ptr(), p.len())?;
                    }
                }
            }
            ctap2::Request::CredentialManagement(c) => {
                if let Some(p) = c.pin_auth {
                    borrowed(w, "pinAuth", p.as_ptr(), p.len())?;
                }
                if let Some(p) = &c.sub_command_params {
                    if let Some(h) = p.rp_id_hash {
                        borrowed(w, "rpIdHash", h.as_ptr(), h.len())?;
                    }
                    if let Some(d) = &p.credential_id {
                        desc(w, "credentialID", d)?;
                    }
                    if let Some(u) = &p.user {
                        user(w, "user", u)?;
                    }
                }
            }
            ctap2::Request::LargeBlobs(l) => {
                for (n, m) in [("set", l.set), ("pinUvAuthParam", l.pin_uv_auth_param)] {
                    if let Some(p) = m {
                        borrowed(w, n, p.as_ptr(), p.len())?;
                    }
                }
            }
            ctap2::Request::Vendor(v) => {
                let b = u8::from(*v);
                if !(0x40..=0x7F).contains(&b) {
                    w.vendor_out_of_range = true;
                }
            }
            _ => {}
        }
        Ok(())
    }

    fn walk1(w: &Walk, r: &ctap1::Request) -> W {
        match r {
            ctap1::Request::Register(x) => {
                borrowed(w, "challenge", x.challenge.as_ptr(), 32)?;
                borrowed(w, "appId", x.app_id.as_ptr(), 32)
            }
            ctap1::Request::Authenticate(x) => {
                borrowed(w, "challenge", x.challenge.as_ptr(), 32)?;
                borrowed(w, "appId", x.app_id.as_ptr(), 32)?;
                borrowed(w, "keyHandle", x.key_handle.as_ptr(), x.key_handle.len())
            }
            ctap1::Request::Version => Ok(()),
        }
    }

    fn check_value<T: core::fmt::Debug + Clone + PartialEq>(what: &str, v: &T) -> W {
        let d1 = format!("{:?}", v);
        let c = v.clone();
        if &c != v {
            return Err(format!("{}: clone is not equal to the original", what));
        }
        let d2 = format!("{:?}", c);
        if d1 != d2 {
            return Err(format!("{}: Debug rendering of the clone differs", what));
        }
        Ok(())
    }

    /// two generated values that are (usually) NOT equal: comparison must work in both directions,
    /// agree with itself and agree with the Debug renderings
    fn check_pair<T: core::fmt::Debug + PartialEq>(what: &str, a: &T, b: &T) -> W {
        let ab = a == b;
        let ba = b == a;
        if ab != ba {
            return Err(format!("{}: == is not symmetric", what));
        }
        // equal values render equally; the converse is NOT demanded (a Debug impl may redact secrets)
        let same_text = format!("{:?}", a) == format!("{:?}", b);
        if ab && !same_text {
            return Err(format!("{}: == says the values are equal but their Debug renderings differ", what));
        }
        Ok(())
    }

    /// Values DERIVED from a generated request by editing its public members (a list shortened to
    /// a proper prefix or emptied, an optional member dropped): equality against the original must
    /// work in both directions and agree with Debug, and `clone_from` onto a value that has MORE
    /// members set must produce an exact copy (nothing of the old value may survive).
    fn check_derived(r: &ctap2::Request) -> W {
        let mut sibs: Vec<ctap2::Request> = vec![];
        match r {
            ctap2::Request::MakeCredential(m) => {
                if let Some(l) = &m.exclude_list {
                    let mut a = m.clone();
                    let mut shorter = l.clone();
                    shorter.pop();
                    a.exclude_list = Some(shorter);
                    sibs.push(ctap2::Request::MakeCredential(a));
                    let mut b = m.clone();
                    b.exclude_list = Some(Default::default());
                    sibs.push(ctap2::Request::MakeCredential(b));
                    let mut c = m.clone();
                    c.exclude_list = None;
                    sibs.push(ctap2::Request::MakeCredential(c));
                }
                let mut d = m.clone();
                d.rp.name = None;
                d.user.name = None;
                d.user.display_name = None;
                d.user.icon = None;
                d.options = None;
                d.extensions = None;
                sibs.push(ctap2::Request::MakeCredential(d));
            }
            ctap2::Request::GetAssertion(g) => {
                if let Some(l) = &g.allow_list {
                    let mut a = g.clone();
                    let mut shorter = l.clone();
                    shorter.pop();
                    a.allow_list = Some(shorter);
                    sibs.push(ctap2::Request::GetAssertion(a));
                    let mut b = g.clone();
                    b.allow_list = Some(Default::default());
                    sibs.push(ctap2::Request::GetAssertion(b));
                    let mut c = g.clone();
                    c.allow_list = None;
                    sibs.push(ctap2::Request::GetAssertion(c));
                }
                let mut d = g.clone();
                d.extensions = None;
                d.options = None;
                d.pin_auth = None;
                sibs.push(ctap2::Request::GetAssertion(d));
            }
            ctap2::Request::CredentialManagement(c) => {
                let mut d = c.clone();
                if let Some(p) = d.sub_command_params.as_mut() {
                    if let Some(u) = p.user.as_mut() {
                        u.name = None;
                        u.display_name = None;
                        u.icon = None;
                    }
                }
                sibs.push(ctap2::Request::CredentialManagement(d));
                let mut e = c.clone();
                e.sub_command_params = None;
                sibs.push(ctap2::Request::CredentialManagement(e));
            }
            _ => {}
        }
        // `clone_from` on the payload types themselves (the enum's own clone_from is the default
        // `*self = source.clone()` and would hide a hand-written one further down)
        fn copy_both_ways<T: Clone + PartialEq + core::fmt::Debug>(a: &T, b: &T) -> W {
            let mut t = a.clone();
            t.clone_from(b);
            if &t != b || format!("{:?}", t) != format!("{:?}", b) {
                return Err("clone_from(&source) did not produce a copy of the source (something of the old value survived)".to_string());
            }
            let mut t2 = b.clone();
            t2.clone_from(a);
            if &t2 != a || format!("{:?}", t2) != format!("{:?}", a) {
                return Err("clone_from(&source) did not produce a copy of the source".to_string());
            }
            Ok(())
        }
        for s in &sibs {
            check_pair("derived sibling", r, s)?;
            check_pair("derived sibling", s, r)?;
            copy_both_ways(r, s)?;
            match (r, s) {
                (ctap2::Request::MakeCredential(a), ctap2::Request::MakeCredential(b)) => {
                    copy_both_ways(a, b)?;
                    copy_both_ways(&a.rp, &b.rp)?;
                    copy_both_ways(&a.user, &b.user)?;
                }
                (ctap2::Request::GetAssertion(a), ctap2::Request::GetAssertion(b)) => copy_both_ways(a, b)?,
                (ctap2::Request::CredentialManagement(a), ctap2::Request::CredentialManagement(b)) => copy_both_ways(a, b)?,
                _ => {}
            }
        }
        Ok(())
    }

    /// the same input with every byte after the first `keep` inverted (same variant selectors,
    /// different contents of equal length): a sibling value to compare with
    fn sibling_input(data: &[u8], keep: usize) -> Vec<u8> {
        // the tail is kept as well in every other case: lengths of borrowed members are read from the
        // END of the input, so this yields members of equal length with different contents
        let tail_keep = if (data.len() / 4) % 2 == 0 { 16 } else { 0 };
        let end = data.len().saturating_sub(tail_keep);
        data.iter().enumerate().map(|(i, b)| if i < keep || i >= end { *b } else { !*b }).collect()
    }

    /// a recording authenticator (independent of C10's, kept small)
    struct Sink(u32);
    impl ctap2::Authenticator for Sink {
        fn get_info(&mut self) -> ctap2::get_info::Response {
            self.0 += 1;
            ctap2::get_info::Response::default()
        }
        fn make_credential(&mut self, _: &ctap2::make_credential::Request) -> ctap2::Result<ctap2::make_credential::Response> {
            self.0 += 1;
            Err(ctap2::Error::OperationDenied)
        }
        fn get_assertion(&mut self, _: &ctap2::get_assertion::Request) -> ctap2::Result<ctap2::get_assertion::Response> {
            self.0 += 1;
            Err(ctap2::Error::NoCredentials)
        }
        fn get_next_assertion(&mut self) -> ctap2::Result<ctap2::get_assertion::Response> {
            self.0 += 1;
            Err(ctap2::Error::NotAllowed)
        }
        fn reset(&mut self) -> ctap2::Result<()> {
            self.0 += 1;
            Ok(())
        }
        fn client_pin(&mut self, _: &ctap2::client_pin::Request) -> ctap2::Result<ctap2::client_pin::Response> {
            self.0 += 1;
            Ok(ctap2::client_pin::Response::default())
        }
        fn credential_management(&mut self, _: &ctap2::credential_management::Request) -> ctap2::Result<ctap2::credential_management::Response> {
            self.0 += 1;
            Ok(ctap2::credential_management::Response::default())
        }
        fn selection(&mut self) -> ctap2::Result<()> {
            self.0 += 1;
            Ok(())
        }
        fn vendor(&mut self, _: ctap2::VendorOperation) -> ctap2::Result<()> {
            self.0 += 1;
            Ok(())
        }
        fn large_blobs(&mut self, _: &ctap2::large_blobs::Request) -> ctap2::Result<ctap2::large_blobs::Response> {
            self.0 += 1;
            Ok(ctap2::large_blobs::Response::default())
        }
    }
    impl ctap1::Authenticator for Sink {
        fn register(&mut self, _: &ctap1::register::Request<'_>) -> ctap1::Result<ctap1::register::Response> {
            self.0 += 1;
            Err(iso7816::Status::ConditionsOfUseNotSatisfied)
        }
        fn authenticate(&mut self, _: &ctap1::authenticate::Request<'_>) -> ctap1::Result<ctap1::authenticate::Response> {
            self.0 += 1;
            Err(iso7816::Status::IncorrectDataParameter)
        }
    }

    fn dispatch2(r: &ctap2::Request) -> W {
        let mut s = Sink(0);
        let _ = ctap2::Authenticator::call_ctap2(&mut s, r);
        if s.0 != 1 {
            return Err(format!("dispatch invoked {} handlers", s.0));
        }
        Ok(())
    }
    fn dispatch1(r: &ctap1::Request) -> W {
        let mut s = Sink(0);
        let _ = ctap1::Authenticator::call_ctap1(&mut s, r);
        let want = if matches!(r, ctap1::Request::Version) { 0 } else { 1 };
        if s.0 != want {
            return Err(format!("dispatch invoked {} handlers", s.0));
        }
        Ok(())
    }

    pub fn check_bytes(entry: usize, data: &[u8], obs: &mut Obs) -> CaseResult {
        let ename = ["ctap1::Request", "ctap2::Request", "authenticator::Request"][entry];
        obs.labelf(format!("entry:{}", ename));
        obs.case_with(|| json!({"entry": ename, "input_hex": hex(data), "len": data.len()}));
        let mut payload = vec![entry as u8];
        payload.extend_from_slice(data);
        let fail = |what: &str, m: String| {
            Fail::new(format!("C19:{}:{}", ename, what), m, json!({"entry": ename, "input_len": data.len(), "input_hex": hex(&data[..data.len().min(300)])}))
                .with_concrete("c19_concrete", payload.clone())
        };
        let mut w = Walk { at_capacity: false, vendor_out_of_range: false, input: (data.as_ptr() as usize, data.as_ptr() as usize + data.len()) };
        // the second entry point of the trait: `arbitrary_take_rest` (what `fuzz_target!(|r: Request|)`
        // calls); it is judged like the first, and reported under its own name
        let res_rest: Result<(), (String, String)> = {
            let u = Unstructured::new(data);
            match entry {
                0 => match <ctap1::Request as Arbitrary>::arbitrary_take_rest(u) {
                    Ok(r) => walk1(&w, &r).and_then(|_| check_value("ctap1::Request", &r)).and_then(|_| dispatch1(&r)).map_err(|m| ("take_rest:invalid-value".to_string(), m)),
                    Err(arbitrary::Error::NotEnoughData) => Ok(()),
                    Err(e) => Err(("take_rest:unexpected-error".into(), format!("{:?}", e))),
                },
                1 => match <ctap2::Request as Arbitrary>::arbitrary_take_rest(u) {
                    Ok(r) => walk2(&mut w, &r).and_then(|_| check_value("ctap2::Request", &r)).and_then(|_| dispatch2(&r)).map_err(|m| ("take_rest:invalid-value".to_string(), m)),
                    Err(arbitrary::Error::NotEnoughData) => Ok(()),
                    Err(e) => Err(("take_rest:unexpected-error".into(), format!("{:?}", e))),
                },
                _ => match <authenticator::Request as Arbitrary>::arbitrary_take_rest(u) {
                    Ok(r) => {
                        let inner = match &r {
                            authenticator::Request::Ctap1(x) => walk1(&w, x).and_then(|_| dispatch1(x)),
                            authenticator::Request::Ctap2(x) => walk2(&mut w, x).and_then(|_| dispatch2(x)),
                        };
                        inner.and_then(|_| check_value("authenticator::Request", &r)).map_err(|m| ("take_rest:invalid-value".to_string(), m))
                    }
                    Err(arbitrary::Error::NotEnoughData) => Ok(()),
                    Err(e) => Err(("take_rest:unexpected-error".into(), format!("{:?}", e))),
                },
            }
        };
        obs.sub_evals += 1;
        if let Err((k, m)) = res_rest {
            return Err(fail(&k, m));
        }
        // compare with a sibling generated from related bytes (values of the same shape that differ)
        {
            let keep = [5usize, 9, 13, 24][data.len() % 4];
            let other = sibling_input(data, keep);
            let pair: W = match entry {
                0 => match (<ctap1::Request as Arbitrary>::arbitrary(&mut Unstructured::new(data)), <ctap1::Request as Arbitrary>::arbitrary(&mut Unstructured::new(&other))) {
                    (Ok(a), Ok(b)) => check_pair("ctap1::Request", &a, &b),
                    _ => Ok(()),
                },
                1 => match (<ctap2::Request as Arbitrary>::arbitrary(&mut Unstructured::new(data)), <ctap2::Request as Arbitrary>::arbitrary(&mut Unstructured::new(&other))) {
                    (Ok(a), Ok(b)) => check_pair("ctap2::Request", &a, &b),
                    _ => Ok(()),
                },
                _ => match (<authenticator::Request as Arbitrary>::arbitrary(&mut Unstructured::new(data)), <authenticator::Request as Arbitrary>::arbitrary(&mut Unstructured::new(&other))) {
                    (Ok(a), Ok(b)) => check_pair("authenticator::Request", &a, &b),
                    _ => Ok(()),
                },
            };
            obs.sub_evals += 1;
            if let Err(m) = pair {
                return Err(fail("pair-comparison", m));
            }
        }
        let mut u = Unstructured::new(data);
        let res: Result<(), (String, String)> = match entry {
            0 => match <ctap1::Request as Arbitrary>::arbitrary(&mut u) {
                Ok(r) => walk1(&w, &r).and_then(|_| check_value("ctap1::Request", &r)).and_then(|_| dispatch1(&r)).map_err(|m| ("invalid-value".to_string(), m)),
                Err(arbitrary::Error::NotEnoughData) => Err(("not-enough-data".into(), String::new())),
                Err(e) => Err(("unexpected-error".into(), format!("{:?}", e))),
            },
            1 => match <ctap2::Request as Arbitrary>::arbitrary(&mut u) {
                Ok(r) => walk2(&mut w, &r).and_then(|_| check_value("ctap2::Request", &r)).and_then(|_| check_derived(&r)).and_then(|_| dispatch2(&r)).map_err(|m| ("invalid-value".to_string(), m)),
                Err(arbitrary::Error::NotEnoughData) => Err(("not-enough-data".into(), String::new())),
                Err(e) => Err(("unexpected-error".into(), format!("{:?}", e))),
            },
            _ => match <authenticator::Request as Arbitrary>::arbitrary(&mut u) {
                Ok(r) => {
                    let inner = match &r {
                        authenticator::Request::Ctap1(x) => walk1(&w, x).and_then(|_| dispatch1(x)),
                        authenticator::Request::Ctap2(x) => walk2(&mut w, x).and_then(|_| dispatch2(x)),
                    };
                    inner.and_then(|_| check_value("authenticator::Request", &r)).map_err(|m| ("invalid-value".to_string(), m))
                }
                Err(arbitrary::Error::NotEnoughData) => Err(("not-enough-data".into(), String::new())),
                Err(e) => Err(("unexpected-error".into(), format!("{:?}", e))),
            },
        };
        match res {
            Ok(()) => {
                obs.label("result:ok");
                if w.vendor_out_of_range {
                    obs.label("note:vendor-code-outside-0x40..0x7f");
                }
                if w.at_capacity {
                    obs.label("field-at-capacity");
                }
                if w.at_capacity || data.iter().any(|b| *b >= 0x80) {
                    obs.nontrivial(&[&[entry as u8], data]);
                }
                Ok(())
            }
            Err((k, _)) if k == "not-enough-data" => {
                obs.label("result:not-enough-data");
                Ok(())
            }
            Err((k, m)) => Err(fail(&k, m)),
        }
    }

    /// words: [entry, pattern byte (raw), length (raw)]
    fn g_repeat(src: &mut Src, obs: &mut Obs) -> CaseResult {
        let entry = src.below(3);
        let b = (src.word() & 0xFF) as u8;
        let n = (src.word() as usize).min(4096);
        let data = vec![b; n];
        obs.label("pattern:repeat");
        obs.sample_with(|| json!({"pattern": format!("0x{:02x} x {}", b, n)}));
        check_bytes(entry, &data, obs)
    }

    const PIECES: [&[u8]; 14] = [
        &[0x80], &[0xBF], &[0xC3], &[0xE2, 0x82], &[0xF0, 0x9F, 0x98], &[0xC0, 0xAF], &[0xE0, 0x80, 0xAF], &[0xED, 0xA0, 0x80], &[0xF4, 0x90, 0x80, 0x80],
        &[0xF8], &[0xFF], &[0xFE], &[0xC3, 0xA9], &[0xF0, 0x9F, 0x98, 0x80],
    ];

    /// words: [entry, length class, mix...]
    fn g_mix(src: &mut Src, obs: &mut Obs) -> CaseResult {
        let entry = src.below(3);
        let target = match src.below(5) {
            0 => src.range(0, 64),
            1 => src.range(64, 400),
            2 => src.range(400, 1500),
            _ => src.range(1500, 4096),
        };
        let mut data: Vec<u8> = Vec::with_capacity(target + 8);
        while data.len() < target {
            match src.below(10) {
                0 | 1 => {
                    let n = src.range(1, 8);
                    data.extend(src.bytes(n));
                }
                2 | 3 => {
                    let n = src.range(1, 24);
                    for _ in 0..n {
                        data.push(b'a' + (src.below(26) as u8));
                    }
                }
                4 => data.extend_from_slice("é€😀".as_bytes()),
                5 | 6 => data.extend_from_slice(PIECES[src.below(PIECES.len())]),
                7 => {
                    // a length-prefix-like little-endian usize near a capacity (arbitrary reads usize from 8 bytes)
                    let c = *src.pick(&[0u64, 1, 2, 10, 16, 31, 32, 33, 63, 64, 65, 80, 127, 128, 129, 255, 256, 257, 1024, u64::MAX]);
                    data.extend_from_slice(&c.to_le_bytes());
                }
                8 => data.extend_from_slice(&[0xFF; 9]),
                _ => data.extend_from_slice(&[0x00; 5]),
            }
        }
        data.truncate(4096);
        obs.label("pattern:mix");
        obs.sample_with(|| json!({"pattern": "mix", "len": data.len(), "head_hex": hex(&data[..data.len().min(48)])}));
        check_bytes(entry, &data, obs)
    }

    /// A text window for `arbitrary_str::<CAP>`: returns (declared length, bytes that follow).
    /// The declared length sits near the capacity and the window end falls before, inside or
    /// after a multi-byte character whose remaining bytes follow the window.
    fn text_window(src: &mut Src, cap: usize) -> (u64, Vec<u8>, &'static str) {
        let n: usize = match src.below(10) {
            0 => cap,
            1 => cap - 1,
            2 => cap - 2,
            3 => cap - 3,
            4 => cap + 1,
            5 => cap + 7,
            6 => 0,
            7 => src.range(1, cap),
            8 => cap / 2,
            _ => cap,
        };
        let chars: [&str; 6] = ["\u{e9}", "\u{20ac}", "\u{1f600}", "\u{10ffff}", "\u{800}", "\u{80}"];
        let c = chars[src.below(chars.len())].as_bytes();
        let window = n.min(cap);
        // the character starts k bytes before the end of the window (k = 0: right after it)
        let k = src.below(c.len() + 2);
        let start = window.saturating_sub(k);
        let mut bytes: Vec<u8> = (0..start).map(|i| b'a' + (i % 26) as u8).collect();
        let label = match src.below(7) {
            0 => {
                // ill-formed: a lone continuation / invalid byte instead of the character
                bytes.push(*src.pick(&[0x80u8, 0xBF, 0xC0, 0xF8, 0xFF]));
                "window:ill-formed-byte"
            }
            6 => {
                // the window ends right after a LEAD byte whose second byte is restricted (E0, ED, F0,
                // F4), and what follows outside the window are continuation bytes from the forbidden
                // part of the range (overlong, surrogate, beyond U+10FFFF) or from the allowed part
                let (lead, bad, good): (u8, u8, u8) = *src.pick(&[(0xE0, 0x80, 0xA0), (0xE0, 0x9F, 0xBF), (0xED, 0xA0, 0x9F), (0xED, 0xBF, 0x80), (0xF0, 0x80, 0x90), (0xF0, 0x8F, 0xBF), (0xF4, 0x90, 0x8F), (0xF4, 0xBF, 0x80)]);
                bytes.truncate(window.saturating_sub(1));
                bytes.push(lead);
                bytes.push(if src.chance(3, 4) { bad } else { good });
                bytes.extend_from_slice(&[0x80, 0x80]);
                "window:ends-after-restricted-lead-byte"
            }
            1 => {
                // the character is cut by the end of the data that follows (never completed)
                bytes.extend_from_slice(&c[..c.len() - 1]);
                bytes.extend_from_slice(b"zz");
                "window:char-never-completed"
            }
            _ => {
                bytes.extend_from_slice(c);
                if k > 0 && k < c.len() {
                    "window:cuts-a-character"
                } else {
                    "window:on-a-boundary"
                }
            }
        };
        let extra = src.range(0, 6);
        for i in 0..extra {
            bytes.push(b'A' + i as u8);
        }
        // the bytes the generator will consume are at most `window`; what follows is read by later fields
        let declared = if src.chance(1, 8) { u64::MAX - src.below(3) as u64 } else { n as u64 };
        (declared, bytes, label)
    }

    /// Inputs laid out the way the hand-written Arbitrary impls consume them (variant selector,
    /// then per text field an 8-byte little-endian length followed by the window), so that the
    /// clamping and the valid-prefix logic are exercised at their boundaries.
    /// words: [entry (1 = ctap2, 2 = combined), request kind, ...]
    fn g_layout(src: &mut Src, obs: &mut Obs) -> CaseResult {
        let entry = 1 + src.below(2);
        let kind = src.below(5);
        let mut d: Vec<u8> = vec![];
        if entry == 2 {
            // authenticator::Request: variant 1 of 2 = Ctap2
            d.extend_from_slice(&0x8000_0000u32.to_le_bytes());
        }
        let variant = |i: u64| -> [u8; 4] { ((((i << 32) + 9) / 10) as u32).to_le_bytes() };
        let mut labels: Vec<&'static str> = vec![];
        let mut tail: Vec<u8> = vec![];
        let mut put_str = |d: &mut Vec<u8>, src: &mut Src, cap: usize, labels: &mut Vec<&'static str>| {
            let (n, bytes, l) = text_window(src, cap);
            d.extend_from_slice(&n.to_le_bytes());
            d.extend_from_slice(&bytes);
            labels.push(l);
        };
        match kind {
            0 | 1 => {
                // MakeCredential (variant 0): clientDataHash (&[u8], length from the end), rp, user
                d.extend_from_slice(&variant(0));
                let cdh = src.range(0, 40);
                d.extend(src.bytes(cdh));
                put_str(&mut d, src, 256, &mut labels); // rp.id
                let name = src.bool();
                d.push(name as u8);
                if name {
                    put_str(&mut d, src, 64, &mut labels);
                }
                d.push(src.bool() as u8); // rp.icon placeholder
                let idn = src.range(0, 70) as u64;
                d.extend_from_slice(&idn.to_le_bytes()); // user.id (Bytes<64>)
                d.extend(src.bytes(idn.min(64) as usize));
                for cap in [128usize, 64, 64] {
                    let p = src.bool();
                    d.push(p as u8);
                    if p {
                        put_str(&mut d, src, cap, &mut labels);
                    }
                }
                tail = (cdh as u16).to_be_bytes().to_vec();
                obs.label("layout:make_credential");
            }
            4 => {
                // LargeBlobs (variant 8): get (Option<u32>), set (Option<&[u8]>, length from the end),
                // offset (u32), length (Option<u32>), pinUvAuthParam, pinUvAuthProtocol; fragments
                // around and beyond 4096 bytes with the offset zero or not
                d.extend_from_slice(&variant(8));
                let get = src.bool();
                d.push(get as u8);
                if get {
                    d.extend_from_slice(&(src.word()).to_le_bytes());
                }
                d.push(1); // set = Some
                let l = *src.pick(&[0usize, 1, 16, 17, 3008, 4095, 4096, 4097, 5000, 7000]);
                d.extend((0..l).map(|i| (i as u8) | 0x80));
                let off: u32 = match src.below(4) {
                    0 => 0,
                    1 => u32::MAX - src.below(8) as u32,
                    2 => u32::MAX - (l as u32).min(u32::MAX),
                    _ => src.word(),
                };
                d.extend_from_slice(&off.to_le_bytes());
                let lenp = src.bool();
                d.push(lenp as u8);
                if lenp {
                    d.extend_from_slice(&(src.word()).to_le_bytes());
                }
                tail = (l as u16).to_be_bytes().to_vec();
                obs.label("layout:large_blobs");
                if l > 4096 {
                    obs.label("layout:large_blobs:fragment>4096");
                }
            }
            2 => {
                // GetAssertion (variant 1): rp_id (&str, length from the end), clientDataHash (&[u8])
                d.extend_from_slice(&variant(1));
                let total = *src.pick(&[250usize, 254, 255, 256, 257, 258, 260, 300, 600]);
                let chars: [&str; 4] = ["\u{e9}", "\u{20ac}", "\u{1f600}", "\u{10ffff}"];
                let c = chars[src.below(4)].as_bytes();
                // a multi-byte character ending at or straddling offset 256
                let start = 256usize.saturating_sub(src.below(c.len() + 1));
                let mut rp: Vec<u8> = (0..start.min(total)).map(|i| b'a' + (i % 26) as u8).collect();
                if rp.len() + c.len() <= total {
                    rp.extend_from_slice(c);
                }
                while rp.len() < total {
                    rp.push(b'q');
                }
                let l = rp.len();
                d.extend_from_slice(&rp);
                let cdh = src.range(0, 40);
                d.extend(src.bytes(cdh));
                tail = (cdh as u16).to_be_bytes().to_vec();
                tail.extend_from_slice(&(l as u16).to_be_bytes());
                labels.push("window:borrowed-rp-id");
                obs.label("layout:get_assertion");
            }
            _ => {
                // CredentialManagement (variant 6) with sub-command parameters: rpIdHash (32 bytes),
                // descriptor (&[u8] + &str from the end), user entity
                d.extend_from_slice(&variant(6));
                d.extend_from_slice(&variant(src.below(7) as u64 % 7)); // sub-command (7 variants -> scale differs; any value is fine)
                d.push(1); // sub_command_params = Some
                let with_hash = src.bool();
                d.push(with_hash as u8);
                if with_hash {
                    let n = if src.chance(1, 4) { src.range(0, 31) } else { 32 };
                    d.extend(src.bytes(n));
                    if n < 32 {
                        obs.label("window:short-rp-id-hash");
                        let fail_here = check_bytes(entry, &d, obs);
                        obs.label("layout:credential_management");
                        return fail_here;
                    }
                }
                d.push(0); // credential_id = None
                d.push(1); // user = Some
                let idn = src.range(0, 70) as u64;
                d.extend_from_slice(&idn.to_le_bytes());
                d.extend(src.bytes(idn.min(64) as usize));
                for cap in [128usize, 64, 64] {
                    let p = src.bool();
                    d.push(p as u8);
                    if p {
                        put_str(&mut d, src, cap, &mut labels);
                    }
                }
                obs.label("layout:credential_management");
            }
        }
        // zeros: every later field absent / empty; then the lengths read from the end
        d.extend(std::iter::repeat(0u8).take(300));
        d.extend_from_slice(&tail);
        for l in labels {
            obs.label(l);
        }
        obs.sample_with(|| json!({"pattern": "layout", "len": d.len(), "head_hex": hex(&d[..d.len().min(40)])}));
        check_bytes(entry, &d, obs)
    }
    pub const G_LAYOUT: Gen = Gen { name: "c19_layout", f: g_layout };

    fn g_concrete(src: &mut Src, obs: &mut Obs) -> CaseResult {
        let p = crate::run::unpack_bytes(src);
        obs.label("concrete");
        if p.is_empty() || p[0] > 2 {
            return Ok(());
        }
        check_bytes(p[0] as usize, &p[1..], obs)
    }

    pub const G_REPEAT: Gen = Gen { name: "c19_repeat", f: g_repeat };
    pub const G_MIX: Gen = Gen { name: "c19_mix", f: g_mix };
    pub const G_CONCRETE: Gen = Gen { name: "c19_concrete", f: g_concrete };

    pub fn gens() -> Vec<Gen> {
        vec![G_REPEAT, G_MIX, G_LAYOUT, G_CONCRETE]
    }

    pub fn run(ctx: &mut Ctx) {
        let lengths: Vec<u32> = if ctx.quick() {
            vec![0, 1, 2, 7, 8, 9, 31, 32, 33, 63, 64, 65, 66, 100, 128, 129, 255, 256, 257, 400, 512, 1000, 1024, 2048, 3000, 4095, 4096]
        } else {
            (0..=4096).collect()
        };
        for entry in 0..3usize {
            for b in 0..256u32 {
                let ls: Vec<u32> = if ctx.quick() || b == 0 || b == 0xFF { lengths.clone() } else { lengths.iter().copied().filter(|l| l % 16 == (b % 16) || *l < 300).collect() };
                ctx.enumerate(&G_REPEAT, ls.into_iter().map(move |l| vec![idx(entry, 3), b, l]));
            }
            if ctx.too_many() {
                return;
            }
        }
        ctx.exhaustive.push("all 256 single-byte-repeated patterns x the length ladder (thorough: all-zero and all-0xFF at every length 0..=4096)".into());
        for entry in 0..3usize {
            ctx.random(&G_MIX, &[idx(entry, 3)], ctx.t(20_000, 1_000_000), 900);
        }
        for kind in 0..5usize {
            for entry in 0..2usize {
                ctx.random(&G_LAYOUT, &[idx(entry, 2), idx(kind, 5)], ctx.t(6_000, 300_000), 200);
            }
        }
        ctx.require(&["layout:make_credential", "layout:get_assertion", "layout:credential_management", "window:cuts-a-character",
            "window:on-a-boundary", "window:ill-formed-byte", "window:char-never-completed", "window:borrowed-rp-id", "window:short-rp-id-hash", "window:ends-after-restricted-lead-byte", "layout:large_blobs", "layout:large_blobs:fragment>4096"]);
        ctx.require(&["entry:ctap1::Request", "entry:ctap2::Request", "entry:authenticator::Request", "result:ok", "result:not-enough-data", "pattern:repeat", "pattern:mix", "field-at-capacity"]);
    }
}
