//! C17 — a response fits the transport buffer completely or becomes a one-byte error.

use crate::caps::{ser_n, CAPS};
use crate::mutate::{self, Step};
use crate::props::c02::{presence_prefixes, sig_of};
use crate::refcbor::{self, Value};
use crate::respmodel::*;
use crate::run::{idx, CaseResult, Ctx, Fail, Gen, Obs};
use crate::util::{hex, Src};
use serde_json::json;

fn k(i: i64) -> Step {
    Step::Key(Value::int(i))
}
fn s(t: &str) -> Step {
    Step::Key(Value::text(t))
}

/// byte/text members whose length can be tuned to move the body size: (path, capacity)
fn stretch_members(kind: Kind) -> Vec<(Vec<Step>, usize)> {
    match kind {
        Kind::MakeCredential => vec![(vec![k(2)], 676)],
        Kind::GetAssertion | Kind::GetNextAssertion => vec![(vec![k(2)], 676), (vec![k(1), s("id")], 255), (vec![k(3)], 77)],
        Kind::ClientPin => vec![(vec![k(2)], 48)],
        Kind::CredentialManagement => vec![(vec![k(3), s("id")], 256), (vec![k(7), s("id")], 255), (vec![k(6), s("id")], 64)],
        Kind::LargeBlobs => vec![(vec![k(1)], lb_cap())],
        _ => vec![],
    }
}

/// try to bring the message size (status byte + body) to `target` by resizing stretch members
fn tune(kind: Kind, model: &mut Value, target: usize) {
    for _ in 0..4 {
        let m = 1 + refcbor::encode_canonical(&expected(model)).len();
        if m == target {
            return;
        }
        let mut remaining = target as i64 - m as i64;
        for (p, cap) in stretch_members(kind) {
            if remaining == 0 {
                break;
            }
            if let Some(node) = mutate::get_mut(model, &p) {
                let cur = match node {
                    Value::Bytes(b) => b.len(),
                    Value::Text(t) => t.len(),
                    _ => continue,
                } as i64;
                let new = (cur + remaining).clamp(0, cap as i64);
                remaining -= new - cur;
                match node {
                    Value::Bytes(b) => b.resize(new as usize, 0x3C),
                    Value::Text(t) => *t = vec![b'q'; new as usize],
                    _ => {}
                }
            }
        }
    }
}

/// words: [kind, capacity selector (raw), offset (0..5 -> N = M-2..M+2), prior state (0..3), presence bits..., values...]
fn g_fit(src: &mut Src, obs: &mut Obs) -> CaseResult {
    let kind = KINDS[src.below(KINDS.len())];
    let csel = src.word() as usize;
    let off = src.below(5) as i64 - 2;
    let prior_kind = src.below(3);
    let mut info = RInfo::default();
    let mut model = gen_response(kind, src, &mut info);
    // choose a capacity, then tune the body so that the message size M satisfies N = M + off
    let n_target = CAPS[csel % CAPS.len()];
    if kind.has_params() {
        let want_m = (n_target as i64 - off).max(1) as usize;
        tune(kind, &mut model, want_m);
    }
    check_fit(kind, &model, off, prior_kind, false, src, obs)
}

/// leaf lengths tried, largest first, when a member is pushed to the most its type can hold

/// The largest responses the types can express: every optional member present (each with
/// probability 15/16; the enumerated cases set all of them) and every byte/text member grown to
/// the longest length the public API accepts for it (found by trial through the harness's
/// builder, so no capacity table is needed), deprecated members included. One member in eight is
/// left as generated so that near-maximal combinations occur as well.
fn g_max(src: &mut Src, obs: &mut Obs) -> CaseResult {
    let kind = KINDS[src.below(KINDS.len())];
    let off = src.below(5) as i64 - 2;
    let prior_kind = src.below(3);
    let retune = src.bool();
    let mut words: Vec<u32> = (0..40).map(|_| if src.chance(15, 16) { crate::run::bit(true) } else { 0 }).collect();
    for _ in 0..400 {
        words.push(src.word());
    }
    let mut inner = Src::new(&words);
    let mut info = RInfo::default();
    let mut model = gen_response(kind, &mut inner, &mut info);
    let mut grown = 0usize;
    let mut leaves = 0usize;
    let mut skipped = 0usize;
    for p in mutate::walk(&model) {
        let (is_text, cur) = match mutate::get(&model, &p) {
            Some(Value::Bytes(b)) => (false, b.len()),
            Some(Value::Text(t)) => (true, t.len()),
            _ => continue,
        };
        leaves += 1;
        if src.chance(1, 8) {
            skipped += 1;
            continue;
        }
        let original = mutate::get(&model, &p).cloned().unwrap();
        let mut done = false;
        for cap in LEAF_CAPS {
            if *cap <= cur {
                break;
            }
            let filler = if is_text { Value::Text(vec![b'm'; *cap]) } else { Value::Bytes(vec![0x5A; *cap]) };
            if let Some(node) = mutate::get_mut(&mut model, &p) {
                *node = filler;
            }
            if build(kind, &model).is_ok() {
                done = true;
                grown += 1;
                break;
            }
        }
        if !done {
            if let Some(node) = mutate::get_mut(&mut model, &p) {
                *node = original;
            }
        }
    }
    obs.labelf(format!("max:{}", kind.name()));
    let _ = grown;
    if leaves > 0 && skipped == 0 {
        obs.labelf(format!("max:all-members-at-capacity:{}", kind.name()));
    }
    if retune && kind.has_params() {
        // bring the message to an instantiated capacity just below its maximal size
        let m = 1 + refcbor::encode_canonical(&expected(&model)).len();
        if let Some(n) = CAPS.iter().rev().find(|c| (**c as i64) < m as i64 - 2) {
            tune(kind, &mut model, (*n as i64 - off).max(1) as usize);
        }
    }
    check_fit(kind, &model, off, prior_kind, true, src, obs)
}

fn check_fit(kind: Kind, model: &Value, off: i64, prior_kind: usize, all_transport: bool, src: &mut Src, obs: &mut Obs) -> CaseResult {
    let exp = expected(model);
    let resp = build(kind, model).map_err(|e| Fail::new("C17:harness:build", e, json!({"model": refcbor::diag(&exp)})))?;
    let full = serialize_full(&resp);
    // the complete message must be right to begin with (C02's oracle), otherwise nothing can be said
    check_encoding(kind, model, &full).map_err(|m| Fail::new(sig_of("C17:precondition", kind.name(), &m), format!("complete message wrong: {}", m), json!({"model": refcbor::diag(&exp)})))?;
    let m = full.len();
    // capacity: the one aimed at if it ended up in the window, else the nearest listed capacity to M + off
    let aim = (m as i64 + off).max(1) as usize;
    let n = if CAPS.contains(&aim) {
        aim
    } else {
        *CAPS.iter().min_by_key(|c| (**c as i64 - aim as i64).abs()).unwrap()
    };
    let mut caps_to_try = vec![n, 1, 2, 3];
    if m > 1 {
        for extra in [64usize, 256, 1024, 3072, 7609] {
            if all_transport || src.chance(1, 8) {
                caps_to_try.push(extra);
            }
        }
        // capacities beyond 16 bits (a buffer may be larger than any transport frame)
        for extra in [65535usize, 65536, 65537, 65600, 131073] {
            if src.chance(1, 12) {
                obs.label("capacity>=65535");
                caps_to_try.push(extra);
            }
        }
    }
    obs.labelf(format!("kind:{}", kind.name()));
    obs.labelf(format!("body:{}", match m - 1 { 0 => "0", 1..=23 => "1..23", 24..=255 => "24..255", 256..=1023 => "256..1023", _ => ">=1024" }));
    for (ci, cap) in caps_to_try.iter().enumerate() {
        let cap = *cap;
        let prior: Vec<u8> = match if ci == 0 { prior_kind } else { (prior_kind + ci) % 3 } {
            0 => vec![],
            1 => {
                let l = src.range(0, cap.min(40));
                (0..l).map(|i| 0xD0 | (i as u8 & 0xF)).collect()
            }
            _ => vec![0xEE; cap],
        };
        let pname = if prior.is_empty() { "prior:empty" } else if prior.len() == cap { "prior:full" } else { "prior:partial" };
        let fits = m <= cap;
        let want: Vec<u8> = if fits { full.clone() } else { vec![0x7F] };
        let d = cap as i64 - m as i64;
        let win = if d.abs() <= 2 { format!("frontier:N-M={}", d) } else if fits { "far:fits".to_string() } else { "far:overflow".to_string() };
        let empty_map_at_1 = cap == 1 && m == 1 && kind.has_params();
        if empty_map_at_1 {
            obs.label("capacity1-empty-map");
        }
        obs.sub(&win, &[kind.name().as_bytes(), &full, &(cap as u32).to_le_bytes(), &[prior.len() as u8, prior_kind as u8]]);
        obs.sub(pname, &[]);
        obs.sub_evals -= 1;
        obs.sub_nontrivial.pop();
        if d.abs() <= 2 || !prior.is_empty() {
            obs.nontrivial(&[kind.name().as_bytes(), &full, &(cap as u32).to_le_bytes()]);
        }
        let case = || {
            json!({"kind": kind.name(), "capacity": cap, "message_len": m, "prior_len": prior.len(), "model_hex": hex(&refcbor::encode_canonical(model)),
                   "expected": if fits { "complete message" } else { "[0x7f]" }})
        };
        obs.case_with(case);
        let got = ser_n(&resp, cap, &prior).ok_or_else(|| Fail::new("C17:harness:capacity", format!("capacity {} not instantiated", cap), json!({})))?;
        if got != want {
            let what = if fits {
                if got == [0x7F] {
                    "fitting-message-reported-as-error"
                } else if got.len() < want.len() {
                    "truncated"
                } else {
                    "fitting-message-wrong-bytes"
                }
            } else if got.len() > 1 {
                "overflow-left-more-than-one-byte"
            } else {
                "overflow-wrong-status"
            };
            let mut c = case();
            c["got_hex"] = json!(hex(&got[..got.len().min(80)]));
            c["got_len"] = json!(got.len());
            let mut payload = vec![KINDS.iter().position(|x| *x == kind).unwrap() as u8];
            payload.extend_from_slice(&(cap as u32).to_be_bytes());
            payload.push(prior.len().min(255) as u8);
            payload.extend_from_slice(&refcbor::encode_canonical(model));
            return Err(Fail::new(
                format!("C17:{}:{}:{}", what, if empty_map_at_1 { "capacity1-empty-map".to_string() } else { format!("N-M={}", d.clamp(-3, 3)) }, pname),
                format!("{} response of {} bytes into capacity {} ({}): got {} bytes starting {}, expected {}", kind.name(), m, cap, pname, got.len(), hex(&got[..got.len().min(8)]), if fits { "the complete message" } else { "[0x7f]" }),
                c,
            )
            .with_concrete("c17_concrete", payload));
        }
    }
    obs.sample_with(|| json!({"kind": kind.name(), "message_len": m, "capacities": caps_to_try, "model": refcbor::diag(&exp)}));
    Ok(())
}

/// replay: payload = kind, capacity u32be, prior length, canonical model
fn g_concrete(src: &mut Src, obs: &mut Obs) -> CaseResult {
    let p = crate::run::unpack_bytes(src);
    obs.label("concrete");
    if p.len() < 7 || p[0] as usize >= KINDS.len() {
        return Ok(());
    }
    let kind = KINDS[p[0] as usize];
    let cap = u32::from_be_bytes([p[1], p[2], p[3], p[4]]) as usize;
    let prior = vec![0xEE; (p[5] as usize).min(cap)];
    let model = refcbor::parse_strict(&p[6..]).map_err(|e| Fail::new("C17:harness:concrete", e.0, json!({})))?;
    let resp = build(kind, &model).map_err(|e| Fail::new("C17:harness:build", e, json!({})))?;
    let full = serialize_full(&resp);
    let m = full.len();
    let want = if m <= cap { full.clone() } else { vec![0x7F] };
    obs.case_with(|| json!({"kind": kind.name(), "capacity": cap, "message_len": m}));
    let got = ser_n(&resp, cap, &prior).ok_or_else(|| Fail::new("C17:harness:capacity", "capacity not instantiated", json!({})))?;
    if got != want {
        let empty1 = cap == 1 && m == 1 && kind.has_params();
        return Err(Fail::new(
            format!("C17:concrete:{}", if empty1 { "capacity1-empty-map" } else { "mismatch" }),
            format!("{} response of {} bytes into capacity {}: got {} bytes", kind.name(), m, cap, got.len()),
            json!({"got_hex": hex(&got[..got.len().min(40)])}),
        ));
    }
    Ok(())
}

/// lengths at which the CBOR head of a byte / text string changes width
const WIDTH_LENS: [usize; 8] = [22, 23, 24, 25, 254, 255, 256, 257];

/// A variable-length member sits exactly on a head-width boundary (23/24, 255/256 bytes) while the
/// capacity is the message size -2..+2: a size computed ahead of encoding, rather than found by
/// encoding, goes wrong exactly there.
/// words: [kind, member selector, length index, offset (0..5), prior state (0..3), response...]
fn g_width(src: &mut Src, obs: &mut Obs) -> CaseResult {
    let kind = KINDS[src.below(KINDS.len())];
    let members = stretch_members(kind);
    let msel = src.below(members.len().max(1));
    let len = WIDTH_LENS[src.below(WIDTH_LENS.len())];
    let off = src.below(5) as i64 - 2;
    let prior_kind = src.below(3);
    let mut info = RInfo::default();
    let mut model = gen_response(kind, src, &mut info);
    obs.label("width");
    if let Some((path, cap)) = members.get(msel) {
        if len <= *cap {
            if let Some(node) = mutate::get_mut(&mut model, path) {
                let done = match node {
                    Value::Bytes(b) => {
                        b.resize(len, 0x5A);
                        true
                    }
                    Value::Text(t) => {
                        *t = vec![b'w'; len];
                        true
                    }
                    _ => false,
                };
                if done {
                    obs.labelf(format!("width:len{}", len));
                    obs.labelf(format!("width:{}", kind.name()));
                }
            }
        }
    }
    check_fit(kind, &model, off, prior_kind, false, src, obs)
}
pub const G_WIDTH: Gen = Gen { name: "c17_width", f: g_width };

pub const G_FIT: Gen = Gen { name: "c17_fit", f: g_fit };
pub const G_CONCRETE: Gen = Gen { name: "c17_concrete", f: g_concrete };
pub const G_MAX: Gen = Gen { name: "c17_max", f: g_max };

pub fn gens() -> Vec<Gen> {
    vec![G_FIT, G_CONCRETE, G_MAX, G_WIDTH]
}

pub const RULE: &str = "Response::serialize::<N> is instantiated for every N in 1..=520, 670..=700, 1020..=1030, 3005..=3020 and 64, 256, 512, 1024, 2048, 3072, 4096, 7609, 65535, 65536, 65537, 65600, 131073 (N is a const generic). For a generated response of any kind (C02 generator; every presence prefix enumerated) a capacity is drawn and a variable-length member (authData, credential id, signature, pin token, rp id, config ...) is resized so that the complete message size M satisfies N - M in {-2,-1,0,1,2}; where a kind cannot reach the drawn capacity the nearest instantiated capacity to M+offset is used. Every response is additionally serialised at N = 1, 2, 3 and occasionally at the transport sizes 64/256/1024/3072/7609. A second generator builds the largest responses the types can express (every optional member present, deprecated ones included, and every byte/text member grown to the longest length the public API accepts, found by trial; one member in eight left as generated) and serialises them at every transport size and, retuned, at the frontier of the nearest instantiated capacity. A third generator puts each tunable member exactly on a CBOR head-width boundary (22..25, 254..257 bytes) and serialises at N - M in {-2..2} for every (kind, member, length, offset). Prior buffer state rotates over empty / partially filled / completely filled with a sentinel. Oracle: expected = the complete message (the crate's own output into a 7609-byte buffer, accepted only after it passed C02's comparison with the reference model) if M <= N, else exactly [0x7F]; buffer after the call == expected for every prior state; no panic. Non-trivial: |N - M| <= 2 or a non-empty prior state; distinct by (kind, message, capacity); evaluations count (response, capacity, prior state) triples.";
pub const ASSUMPTIONS: &[&str] = &[
    "member encoding and key order are judged by C02 / C03; this check decides the framing only",
    "no response type of this crate exceeds about 3.1 KiB, so capacities 4096 and 7609 only ever see fitting messages",
];

pub fn run(ctx: &mut Ctx) {
    for (ki, kind) in KINDS.iter().enumerate() {
        let prefixes = presence_prefixes(*kind);
        let per = ctx.t(2, 24);
        for (pi, p) in prefixes.iter().enumerate() {
            // rotate offset and prior state over the prefixes so that each pair occurs
            let mut w = vec![idx(ki, KINDS.len()), (pi as u32).wrapping_mul(2654435761), idx(pi % 5, 5), idx((pi / 5) % 3, 3)];
            w.extend_from_slice(p);
            ctx.random(&G_FIT, &w, per, 700);
            if ctx.too_many() {
                return;
            }
        }
        // every capacity once per kind, every offset
        if kind.has_params() {
            for (ci, _) in CAPS.iter().enumerate() {
                for o in 0..5 {
                    if ctx.quick() && (ci + o) % 3 != 0 {
                        continue;
                    }
                    ctx.random(&G_FIT, &[idx(ki, KINDS.len()), ci as u32, idx(o, 5)], 1, 700);
                }
            }
        }
        ctx.random(&G_FIT, &[idx(ki, KINDS.len())], ctx.t(400, 20_000), 700);
        // the largest expressible responses: everything present and at capacity (first case), then
        // near-maximal random combinations
        let mut all_max: Vec<Vec<u32>> = vec![];
        for o in 0..5 {
            for pk in 0..3 {
                let mut w = vec![idx(ki, KINDS.len()), idx(o, 5), idx(pk, 3), crate::run::bit(o % 2 == 1)];
                w.extend(std::iter::repeat(u32::MAX).take(40)); // chance(15,16): present
                // the remaining words are 0: chance(1,8) false, i.e. every leaf is grown
                all_max.push(w);
            }
        }
        ctx.enumerate(&G_MAX, all_max.into_iter());
        // every stretch member on every head-width boundary x every offset, several responses each
        if kind.has_params() {
            let nm = stretch_members(*kind).len();
            for mi in 0..nm {
                for li in 0..WIDTH_LENS.len() {
                    for o in 0..5 {
                        ctx.random(&G_WIDTH, &[idx(ki, KINDS.len()), idx(mi, nm), idx(li, WIDTH_LENS.len()), idx(o, 5)], ctx.t(6, 60), 700);
                    }
                }
            }
        }
        ctx.random(&G_MAX, &[idx(ki, KINDS.len())], ctx.t(60, 3000), 700);
    }
    ctx.exhaustive.push(format!("every response kind x every presence prefix; every instantiated capacity ({}) x offset per parameter-bearing kind", CAPS.len()));
    ctx.require(&[
        "kind:GetInfo", "kind:MakeCredential", "kind:GetAssertion", "kind:ClientPin", "kind:CredentialManagement", "kind:LargeBlobs", "kind:Reset",
        "frontier:N-M=0", "frontier:N-M=-1", "frontier:N-M=1", "frontier:N-M=-2", "frontier:N-M=2", "far:fits", "far:overflow",
        "prior:empty", "prior:partial", "prior:full", "width:len23", "width:len24", "width:len255", "width:len256", "width:ClientPin", "width:GetAssertion", "width:MakeCredential", "width:CredentialManagement", "body:0", "body:256..1023", "capacity1-empty-map", "capacity>=65535",
        "max:all-members-at-capacity:GetAssertion", "max:all-members-at-capacity:MakeCredential", "max:all-members-at-capacity:CredentialManagement", "max:all-members-at-capacity:GetInfo",
    ]);
}
