//! C08 — CTAP1/U2F APDU parsing is total and follows the U2F raw message format.

use crate::run::{idx, CaseResult, Ctx, Fail, Gen, Obs};
use crate::util::{hex, Src};
use ctap_types::ctap1::{self, ControlByte, Error as Status, Request};
use iso7816::command::CommandView;
use serde_json::json;

/// Independent ISO 7816-4 command APDU framer.
/// enc: 0 short, no Le | 1 short + Le | 2 extended, no Le | 3 extended + Le
pub fn frame(cla: u8, ins: u8, p1: u8, p2: u8, data: &[u8], enc: usize) -> Option<Vec<u8>> {
    frame_le(cla, ins, p1, p2, data, enc, 0)
}

/// `le`: expected length to announce when the encoding carries an Le field (0 = maximum)
pub fn frame_le(cla: u8, ins: u8, p1: u8, p2: u8, data: &[u8], enc: usize, le: u16) -> Option<Vec<u8>> {
    let mut v = vec![cla, ins, p1, p2];
    let extended = enc >= 2;
    let le_present = enc % 2 == 1;
    if !extended {
        if data.len() > 255 {
            return None;
        }
        if !data.is_empty() {
            v.push(data.len() as u8);
            v.extend_from_slice(data);
        }
        if le_present {
            v.push(le as u8); // 0x00 = 256
        }
    } else {
        if data.is_empty() {
            if !le_present {
                return None; // same bytes as the short case 1
            }
            v.push(0x00);
            v.extend_from_slice(&le.to_be_bytes()); // 0x0000 = 65536
        } else {
            v.push(0x00);
            v.extend_from_slice(&(data.len() as u16).to_be_bytes());
            v.extend_from_slice(data);
            if le_present {
                v.extend_from_slice(&le.to_be_bytes());
            }
        }
    }
    Some(v)
}

#[derive(Debug, PartialEq, Eq)]
enum Expect {
    Err(Status),
    Version,
    Register { challenge: Vec<u8>, app: Vec<u8> },
    Authenticate { control: u8, challenge: Vec<u8>, app: Vec<u8>, handle: Vec<u8> },
}

/// the statement, transcribed
fn spec(cla: u8, ins: u8, p1: u8, data: &[u8]) -> Expect {
    if cla != 0 {
        return Expect::Err(Status::ClassNotSupported);
    }
    match ins {
        3 => Expect::Version,
        1 => {
            if data.len() == 64 {
                Expect::Register { challenge: data[..32].to_vec(), app: data[32..64].to_vec() }
            } else {
                Expect::Err(Status::IncorrectDataParameter)
            }
        }
        2 => {
            if !(p1 == 0x03 || p1 == 0x07 || p1 == 0x08) {
                return Expect::Err(Status::IncorrectDataParameter);
            }
            if data.len() < 65 || data.len() != 65 + data[64] as usize {
                return Expect::Err(Status::IncorrectDataParameter);
            }
            Expect::Authenticate { control: p1, challenge: data[..32].to_vec(), app: data[32..64].to_vec(), handle: data[65..].to_vec() }
        }
        _ => Expect::Err(Status::InstructionNotSupportedOrInvalid),
    }
}

fn observed(r: &Result<Request, Status>) -> Expect {
    match r {
        Err(e) => Expect::Err(*e),
        Ok(Request::Version) => Expect::Version,
        Ok(Request::Register(r)) => Expect::Register { challenge: r.challenge.to_vec(), app: r.app_id.to_vec() },
        Ok(Request::Authenticate(a)) => Expect::Authenticate {
            control: match a.control_byte {
                ControlByte::CheckOnly => 0x07,
                ControlByte::EnforceUserPresenceAndSign => 0x03,
                ControlByte::DontEnforceUserPresenceAndSign => 0x08,
            },
            challenge: a.challenge.to_vec(),
            app: a.app_id.to_vec(),
            handle: a.key_handle.to_vec(),
        },
    }
}

pub const ENC_NAMES: [&str; 4] = ["short", "short+Le", "extended", "extended+Le"];
pub const LENGTHS: [usize; 16] = [0, 1, 32, 63, 64, 65, 66, 67, 96, 255, 256, 318, 319, 320, 321, 400];
/// payloads at and around the largest message a transport can carry, and the APDU maximum
pub const LONG_LENGTHS: [usize; 7] = [7000, 7599, 7600, 7601, 7609, 7610, 65535];

const LE_VALUES: [u16; 8] = [0, 1, 5, 6, 7, 255, 256, 0xFFFF];

fn check_apdu(cla: u8, ins: u8, p1: u8, p2: u8, data: &[u8], enc: usize, obs: &mut Obs) -> CaseResult {
    // the announced expected length rotates with the contents; it never influences the result
    let le = LE_VALUES[(data.len() + p2 as usize + ins as usize) % LE_VALUES.len()];
    let le = if enc < 2 { le & 0xFF } else { le };
    let Some(apdu) = frame_le(cla, ins, p1, p2, data, enc, le) else {
        obs.excluded = true;
        return Ok(());
    };
    obs.case_with(|| json!({"apdu_hex": hex(&apdu)}));
    let fail = |what: &str, m: String| {
        Fail::new(
            format!("C08:{}:ins{}:len{}", what, if (1..=3).contains(&ins) { ins.to_string() } else { "other".into() }, data.len()),
            m,
            json!({"cla": cla, "ins": ins, "p1": p1, "p2": p2, "data_len": data.len(), "encoding": ENC_NAMES[enc], "apdu_hex": hex(&apdu)}),
        )
        .with_concrete("c08_concrete", apdu.clone())
    };
    let view = CommandView::try_from(&apdu[..]);
    let view = match view {
        Ok(v) => v,
        Err(e) => {
            if cla == 0xFF {
                // rejected by the APDU parser itself: not an ISO 7816 command APDU
                obs.label("class-0xFF-not-an-apdu");
                return Ok(());
            }
            return Err(fail("harness:framing-rejected", format!("iso7816 rejected a well-framed APDU: {:?}", e)));
        }
    };
    if view.data() != data {
        return Err(fail("harness:framing-mismatch", "iso7816 parsed different data than framed".into()));
    }
    let want = spec(cla, ins, p1, data);
    let r1 = Request::try_from(view);
    let got1 = observed(&r1);
    if got1 != want {
        return Err(fail("view", format!("CommandView -> {:?}, expected {:?}", short(&got1), short(&want))));
    }
    if data.len() <= 7609 {
        let cmd = iso7816::Command::<7609>::try_from(&apdu[..]).map_err(|e| fail("harness:owned-rejected", format!("{:?}", e)))?;
        let r2 = Request::try_from(&cmd);
        let got2 = observed(&r2);
        if got2 != want {
            return Err(fail("owned", format!("&Command -> {:?}, expected {:?}", short(&got2), short(&want))));
        }
    }
    // the owned entry point with a buffer that the payload fills exactly (and one with a byte to spare)
    macro_rules! owned_exact {
        ($($s:literal),*) => {
            match data.len() {
                $( $s => {
                    let c = iso7816::Command::<$s>::try_from(&apdu[..]).map_err(|e| fail("harness:owned-exact-rejected", format!("{:?}", e)))?;
                    let g = observed(&Request::try_from(&c));
                    if g != want {
                        return Err(fail("owned-exactly-full", format!("&Command<{}> holding exactly {} bytes -> {:?}, expected {:?}", $s, $s, short(&g), short(&want))));
                    }
                    obs.label("owned:exactly-full");
                } )*
                _ => {}
            }
        };
    }
    owned_exact!(0, 1, 32, 63, 64, 65, 66, 67, 96, 255, 256, 318, 319, 320, 321, 400);
    let class = match &want {
        Expect::Err(s) => format!("expect:{:?}", s),
        Expect::Version => "expect:Version".into(),
        Expect::Register { .. } => "expect:Register".into(),
        Expect::Authenticate { .. } => "expect:Authenticate".into(),
    };
    obs.labelf(class);
    obs.labelf(format!("encoding:{}", ENC_NAMES[enc]));
    if cla == 0 && (ins == 1 || ins == 2) {
        obs.nontrivial(&[&apdu]);
        obs.labelf(format!("ins{}:len{}", ins, data.len()));
    }
    obs.sample_with(|| json!({"cla": cla, "ins": ins, "p1": p1, "data_len": data.len(), "encoding": ENC_NAMES[enc], "result": short(&want)}));
    Ok(())
}

fn short(e: &Expect) -> String {
    match e {
        Expect::Err(s) => format!("Err({:?})", s),
        Expect::Version => "Version".into(),
        Expect::Register { .. } => "Register{..}".into(),
        Expect::Authenticate { control, handle, .. } => format!("Authenticate{{control: {}, handle: {} bytes}}", control, handle.len()),
    }
}

fn make_data(len: usize, consistent: usize, seed: u32) -> Vec<u8> {
    let mut d: Vec<u8> = (0..len).map(|i| (seed as usize).wrapping_mul(31).wrapping_add(i * 7) as u8 ^ (seed >> 8) as u8).collect();
    if len > 64 {
        d[64] = match consistent {
            0 => (len - 65) as u8,                   // consistent (mod 256)
            1 => ((len - 65) as u8).wrapping_add(1), // one more
            2 => ((len - 65) as u8).wrapping_sub(1), // one less
            _ => d[64],
        };
    }
    d
}

/// enumerated header space. words: [header (raw: cla<<16|ins<<8|p1), variant (raw)]
fn g_header(src: &mut Src, obs: &mut Obs) -> CaseResult {
    let h = src.word();
    let v = src.word() as usize;
    let (cla, ins, p1) = ((h >> 16) as u8, (h >> 8) as u8, h as u8);
    let len = LENGTHS[v % LENGTHS.len()];
    let enc = (v / LENGTHS.len()) % 4;
    let consistent = (v / (LENGTHS.len() * 4)) % 4;
    let data = make_data(len, consistent, h ^ (v as u32).wrapping_mul(2654435761));
    obs.label("header-space");
    check_apdu(cla, ins, p1, (h >> 3) as u8, &data, enc, obs)
}
pub const VARIANTS: usize = 16 * 4 * 4;

/// Data fields that mean something to smart-card and FIDO-over-NFC stacks (applet identifiers, the
/// version string, a CTAP2 command wrapped for NFC); the U2F conversion must not care.
pub const KNOWN_DATA: [&[u8]; 7] = [
    &[0xA0, 0x00, 0x00, 0x06, 0x47, 0x2F, 0x00, 0x01], // FIDO applet AID
    &[0xA0, 0x00, 0x00, 0x06, 0x47, 0x2F, 0x00],
    &[0xA0, 0x00, 0x00, 0x05, 0x27, 0x10, 0x02],       // another well-known AID
    b"U2F_V2",
    b"FIDO_2_0",
    &[0x04],
    &[],
];
/// instruction bytes that ISO 7816-4 / CTAP-NFC assign a meaning to (SELECT, GET RESPONSE,
/// NFCCTAP_MSG, NFCCTAP_GETRESPONSE, DESELECT ...) and which the APDU parser may map to named variants
pub const KNOWN_INS: [u8; 12] = [0xA4, 0xC0, 0x10, 0x11, 0x12, 0x20, 0x84, 0xB0, 0xD6, 0xCA, 0xDA, 0x00];

/// words: [ins idx, data idx, p1 (raw), p2 (raw), cla selector, enc]
fn g_known(src: &mut Src, obs: &mut Obs) -> CaseResult {
    let ins = KNOWN_INS[src.below(KNOWN_INS.len())];
    let data = KNOWN_DATA[src.below(KNOWN_DATA.len())];
    let p1 = src.word() as u8;
    let p2 = src.word() as u8;
    let cla = if src.chance(3, 4) { 0 } else { *src.pick(&[0x80u8, 0x90, 0x01]) };
    let enc = src.below(4);
    obs.label("known-instruction-and-data");
    check_apdu(cla, ins, p1, p2, data, enc, obs)
}
pub const G_KNOWN: Gen = Gen { name: "c08_known", f: g_known };

/// The conversion is a pure function of the APDU: the same command converted again and again -
/// through both entry points, interleaved with other commands or not - gives the same result
/// every time (nothing may accumulate between calls). words: [repetitions class, shape...]
fn g_again(src: &mut Src, obs: &mut Obs) -> CaseResult {
    let n = *src.pick(&[300usize, 300, 300, 1000, 70_000]);
    let ins = *src.pick(&[1u8, 2, 3, 3, 0xA4]);
    let p1 = *src.pick(&[3u8, 7, 8, 0]);
    let len = match ins {
        1 => 64,
        2 => 65 + src.below(8),
        _ => src.below(4),
    };
    let mut data = src.bytes(len);
    if ins == 2 {
        data[64] = (len - 65) as u8;
    }
    // extended form without data and without Le does not exist (it is the short case 1)
    let enc = if data.is_empty() { [0usize, 1, 3][src.below(3)] } else { src.below(4) };
    let interleave = src.bool();
    let apdu = frame(0, ins, p1, 0, &data, enc).ok_or_else(|| Fail::new("C08:harness:frame", "frame", json!({})))?;
    let other = frame(0, 1, 0, 0, &[7u8; 64], 0).unwrap();
    let want = spec(0, ins, p1, &data);
    obs.label("repeated-conversion");
    obs.labelf(format!("repeated:{}", if n >= 70_000 { ">=65536" } else { "<1000+" }));
    obs.nontrivial(&[&apdu, &(n as u32).to_le_bytes()]);
    obs.case_with(|| json!({"apdu_hex": hex(&apdu), "repetitions": n, "interleaved_with_another_command": interleave}));
    let view = CommandView::try_from(&apdu[..]).map_err(|e| Fail::new("C08:harness:apdu", format!("{:?}", e), json!({})))?;
    let owned = iso7816::Command::<128>::try_from(&apdu[..]).map_err(|e| Fail::new("C08:harness:apdu", format!("{:?}", e), json!({})))?;
    let oview = CommandView::try_from(&other[..]).map_err(|e| Fail::new("C08:harness:apdu", format!("{:?}", e), json!({})))?;
    for i in 0..n {
        let r = if i % 2 == 0 { Request::try_from(view) } else { Request::try_from(&owned) };
        if observed(&r) != want {
            return Err(Fail::new(
                format!("C08:repeated-conversion:call-{}", if i >= 256 { ">=256" } else { "<256" }),
                format!("conversion #{} of the same APDU gave {}, expected {}", i + 1, short(&observed(&r)), short(&want)),
                json!({"apdu_hex": hex(&apdu), "call": i + 1}),
            ));
        }
        if interleave && i % 97 == 5 {
            let _ = Request::try_from(oview);
        }
    }
    Ok(())
}
pub const G_AGAIN: Gen = Gen { name: "c08_again", f: g_again };

/// random data contents and lengths
fn g_random(src: &mut Src, obs: &mut Obs) -> CaseResult {
    let cla = if src.chance(4, 5) { 0 } else { src.byte() };
    let ins = match src.below(5) {
        0 => 1,
        1 | 2 => 2,
        3 => 3,
        _ => src.byte(),
    };
    let p1 = match src.below(6) {
        0 => 3,
        1 => 7,
        2 => 8,
        _ => src.byte(),
    };
    let p2 = src.byte();
    let len = match src.below(9) {
        0 | 1 => *src.pick(&LENGTHS),
        2 | 3 => 65 + src.below(256),
        4 => {
            obs.label("long-payload");
            *src.pick(&LONG_LENGTHS)
        }
        _ => src.range(0, 400),
    };
    let mut data = src.bytes(len);
    if len > 64 && src.chance(2, 3) {
        data[64] = (len - 65) as u8;
    }
    let enc = if len > 255 { 2 + src.below(2) } else { src.below(4) };
    obs.label("random");
    check_apdu(cla, ins, p1, p2, &data, enc, obs)
}

/// raw bytes through the APDU parser and on to the request conversion: never panics
fn g_raw(src: &mut Src, obs: &mut Obs) -> CaseResult {
    let n = src.range(0, 80);
    let mut b = src.bytes(n);
    if !b.is_empty() && src.chance(3, 4) {
        b[0] = 0;
    }
    if b.len() > 1 && src.chance(3, 4) {
        b[1] = 1 + (src.below(3) as u8);
    }
    obs.label("raw");
    obs.case_with(|| json!({"apdu_hex": hex(&b)}));
    if let Ok(v) = CommandView::try_from(&b[..]) {
        let r = Request::try_from(v);
        let want = spec(b[0], b[1], b[2], v.data());
        if observed(&r) != want {
            return Err(Fail::new("C08:raw", format!("{:?} vs expected {:?}", short(&observed(&r)), short(&want)), json!({"apdu_hex": hex(&b)}))
                .with_concrete("c08_raw", b.clone()));
        }
        obs.nontrivial(&[&b]);
        obs.label("raw:parsed");
    }
    let _ = ctap1::NO_ERROR;
    Ok(())
}

fn g_concrete(src: &mut Src, obs: &mut Obs) -> CaseResult {
    let b = crate::run::unpack_bytes(src);
    obs.label("concrete");
    obs.case_with(|| json!({"apdu_hex": hex(&b)}));
    if b.len() < 4 {
        return Ok(());
    }
    if let Ok(v) = CommandView::try_from(&b[..]) {
        let r = Request::try_from(v);
        let want = spec(b[0], b[1], b[2], v.data());
        if observed(&r) != want {
            return Err(Fail::new("C08:concrete", format!("{:?} vs expected {:?}", short(&observed(&r)), short(&want)), json!({"apdu_hex": hex(&b)})));
        }
        if let Ok(c) = iso7816::Command::<7609>::try_from(&b[..]) {
            let r2 = Request::try_from(&c);
            if observed(&r2) != want {
                return Err(Fail::new("C08:concrete-owned", format!("{:?} vs expected {:?}", short(&observed(&r2)), short(&want)), json!({"apdu_hex": hex(&b)})));
            }
        }
    }
    Ok(())
}

pub const G_HEADER: Gen = Gen { name: "c08_header", f: g_header };
pub const G_RANDOM: Gen = Gen { name: "c08_random", f: g_random };
pub const G_RAW: Gen = Gen { name: "c08_raw", f: g_raw };
pub const G_CONCRETE: Gen = Gen { name: "c08_concrete", f: g_concrete };

pub fn gens() -> Vec<Gen> {
    vec![G_HEADER, G_RANDOM, G_RAW, G_KNOWN, G_AGAIN, G_CONCRETE, Gen { name: "c08_raw_concrete", f: g_concrete }]
}

pub const RULE: &str = "APDUs are constructed by an independent ISO 7816-4 framer from (cla, ins, p1, p2, data, encoding in {short, short+Le, extended, extended+Le}, announced Le rotating over {max,1,5,6,7,255,256,65535}) and handed to iso7816's CommandView / Command<7609> parsers and then to both ctap1::Request conversions. Thorough: the complete header space (256 classes x 256 instructions x 256 P1), each header with one (length, encoding, key-handle-length-byte consistency) variant chosen by rotation, and for instructions 1, 2, 3 with ALL 256 variants (16 data lengths on the decision boundaries 0,1,32,63..67,96,255,256,318..321,400 x 4 encodings x 4 consistency modes); quick: every (cla, ins) with P1 in {0,3,7,8,0xFF, rotating} and all variants for cla 0 / ins 1,2,3. Plus every combination of 12 instruction bytes that ISO 7816-4 / CTAP-NFC give a meaning to (SELECT, GET RESPONSE, NFCCTAP_MSG ...) with 7 data fields that mean something elsewhere in the stack (the FIDO applet AID, version strings, a wrapped CTAP2 command) x P1 {0,3,4,0x0C,0x80} x encodings. Plus the same APDU converted 300 / 1000 / 70 000 times in a row through both entry points (optionally interleaved with another command): every result must equal the first (the conversion is a pure function). Plus proptest APDUs with random data (incl. payloads of 7000..7610 and 65535 bytes) and raw byte strings; the owned entry point is additionally exercised with Command<S> buffers that the payload fills exactly. Oracle: the statement transcribed (class check first; ins 3 -> Version; ins 1 -> Register iff 64 bytes; ins 2 -> Authenticate iff P1 in {3,7,8} and len == 65 + data[64]; otherwise the named status), both entry points agree, no panic. Class 0xFF is rejected by the APDU parser itself and nothing further is asserted for it. Non-trivial: cla == 0 and ins in {1,2}; distinct by APDU bytes.";
pub const ASSUMPTIONS: &[&str] = &["the harness framer follows ISO 7816-4 cases 1, 2S/2E, 3S/3E, 4S/4E", "iso7816's parser is part of the system under test (its data slice is compared with the framed data)"];

pub fn run(ctx: &mut Ctx) {
    if ctx.quick() {
        // every (cla, ins) x P1 classes, one rotating variant
        let p1s: [u32; 5] = [0, 3, 7, 8, 0xFF];
        let it = (0..(1u32 << 16)).flat_map(move |ci| {
            (0..6u32).map(move |k| {
                let p1 = if k < 5 { p1s[k as usize] } else { ci.wrapping_mul(97) & 0xFF };
                let h = (ci << 8) | p1;
                vec![h, h.wrapping_mul(2654435761) >> 7]
            })
        });
        ctx.enumerate(&G_HEADER, it);
        // cla 0, ins 1..3: all P1, all variants
        let it = (1..=3u32).flat_map(|ins| (0..256u32).flat_map(move |p1| (0..VARIANTS as u32).map(move |v| vec![(ins << 8) | p1, v])));
        ctx.enumerate(&G_HEADER, it);
        ctx.exhaustive.push("every (class, instruction) x P1 in {0,3,7,8,0xFF,rotating}; class 0 x instructions 1-3 x every P1 x all 256 (length, encoding, consistency) variants".into());
    } else {
        let it = (0..(1u32 << 24)).map(|h| vec![h, h.wrapping_mul(2654435761) >> 7]);
        ctx.enumerate(&G_HEADER, it);
        let it = (0..256u32).flat_map(|cla| {
            (1..=3u32).flat_map(move |ins| {
                (0..256u32).flat_map(move |p1| {
                    let step = if cla == 0 { 1 } else { 16 };
                    (0..VARIANTS as u32).step_by(step).map(move |v| vec![(cla << 16) | (ins << 8) | p1, v + (p1 % step as u32)])
                })
            })
        });
        ctx.enumerate(&G_HEADER, it);
        ctx.exhaustive.push("complete header space 2^24 (class, instruction, P1); class 0 x instructions 1-3 x every P1 x all 256 variants; other classes x instructions 1-3 x every P1 x 16 variants".into());
    }
    if ctx.too_many() {
        return;
    }
    let _ = idx(0, 1);
    // instructions and data fields with a meaning elsewhere in the stack: all combinations x P1 {0, 4, 0x0C, 0x80} x encodings
    let mut known: Vec<Vec<u32>> = vec![];
    for i in 0..KNOWN_INS.len() {
        for d in 0..KNOWN_DATA.len() {
            for p1 in [0u32, 4, 0x0C, 0x80, 3] {
                for enc in 0..4 {
                    known.push(vec![idx(i, KNOWN_INS.len()), idx(d, KNOWN_DATA.len()), p1, 0, u32::MAX, idx(enc, 4)]);
                }
            }
        }
    }
    ctx.enumerate(&G_KNOWN, known.into_iter());
    ctx.random(&G_KNOWN, &[], ctx.t(5_000, 100_000), 16);
    ctx.random(&G_AGAIN, &[], ctx.t(150, 3_000), 90);
    ctx.random(&G_RANDOM, &[], ctx.t(60_000, 2_000_000), 160);
    ctx.random(&G_RAW, &[], ctx.t(60_000, 2_000_000), 40);
    ctx.require(&[
        "expect:Version", "expect:Register", "expect:Authenticate", "expect:ClassNotSupported", "expect:IncorrectDataParameter",
        "expect:InstructionNotSupportedOrInvalid", "encoding:short", "encoding:short+Le", "encoding:extended", "encoding:extended+Le",
        "ins1:len64", "ins1:len63", "ins1:len65", "ins2:len65", "ins2:len64", "ins2:len66", "ins2:len320", "ins2:len321", "ins2:len319", "raw:parsed", "long-payload", "owned:exactly-full", "known-instruction-and-data", "repeated-conversion", "repeated:>=65536",
    ]);
}
