//! C02 — CTAP2 response encoding carries every member under its specified key, exactly.
//! (also provides the shared response-case machinery used by C03)

use crate::refcbor::{self, Value};
use crate::respmodel::*;
use crate::run::{idx, bit, CaseResult, Ctx, Fail, Gen, Obs};
use crate::util::{hex, Src};
use serde_json::json;

#[derive(Clone, Copy, PartialEq, Eq)]
pub enum Mode {
    /// C02: members under their keys, exactly
    Members,
    /// C03: canonical form of the body
    Canonical,
}

/// turn an oracle message "class: ... at $/4/"rk"" into a stable signature
pub fn sig_of(prop: &str, kind: &str, msg: &str) -> String {
    let class = msg.split(':').next().unwrap_or("mismatch");
    let path = msg.rsplit(" at ").next().filter(|_| msg.contains(" at ")).unwrap_or("");
    let path = path.split(' ').next().unwrap_or("");
    let path = crate::reqmodel::strip_indices(path);
    let mut detail = String::new();
    if let Some(i) = msg.find("key-order: ") {
        // keep the offending pair
        detail = msg[i + 11..].split(" at ").next().unwrap_or("").to_string();
    }
    if detail.is_empty() {
        format!("{}:{}:{}:{}", prop, kind, class, path)
    } else {
        format!("{}:{}:{}:{}:{}", prop, kind, class, path, detail)
    }
}

pub fn resp_case(kind: Kind, mode: Mode, src: &mut Src, obs: &mut Obs) -> CaseResult {
    let mut info = RInfo::default();
    let model = gen_response(kind, src, &mut info);
    let conc = if mode == Mode::Members { "c02_concrete" } else { "c03_concrete" };
    let mut payload = vec![KINDS.iter().position(|k| *k == kind).unwrap() as u8];
    payload.extend_from_slice(&refcbor::encode_canonical(&model));
    resp_check(kind, mode, &model, info, obs).map_err(|f| if f.concrete.is_none() { f.with_concrete(conc, payload) } else { f })
}

fn concrete_case(mode: Mode, src: &mut Src, obs: &mut Obs) -> CaseResult {
    let payload = crate::run::unpack_bytes(src);
    obs.label("concrete");
    if payload.is_empty() || payload[0] as usize >= KINDS.len() {
        return Ok(());
    }
    let kind = KINDS[payload[0] as usize];
    let model = refcbor::parse_strict(&payload[1..])
        .map_err(|e| Fail::new("harness:concrete-not-cbor", e.0, json!({"payload_hex": hex(&payload)})))?;
    resp_check(kind, mode, &model, RInfo::default(), obs)
}
fn m_concrete(s: &mut Src, o: &mut Obs) -> CaseResult {
    concrete_case(Mode::Members, s, o)
}
fn k_concrete(s: &mut Src, o: &mut Obs) -> CaseResult {
    concrete_case(Mode::Canonical, s, o)
}
pub const M_CONCRETE: Gen = Gen { name: "c02_concrete", f: m_concrete };
pub const K_CONCRETE: Gen = Gen { name: "c03_concrete", f: k_concrete };

pub fn resp_check(kind: Kind, mode: Mode, model: &Value, info: RInfo, obs: &mut Obs) -> CaseResult {
    let prop = if mode == Mode::Members { "C02" } else { "C03" };
    let model = model.clone();
    let exp = expected(&model);
    let exp_bytes = refcbor::encode_canonical(&exp);
    obs.label(kind.name());
    for l in &info.labels {
        obs.labelf(l.clone());
    }
    let case = |out: &[u8]| {
        json!({"kind": kind.name(), "model_hex": hex(&refcbor::encode_canonical(&model)),
               "model": refcbor::diag(&exp), "output_hex": hex(out)})
    };
    obs.case_with(|| case(&[]));
    let resp = build(kind, &model).map_err(|e| Fail::new(format!("{}:harness:build", prop), e, case(&[])))?;
    let out = serialize_full(&resp);
    let n_entries = exp.as_map().map(|m| m.len()).unwrap_or(0);
    if mode == Mode::Members {
        if info.nontrivial() {
            obs.nontrivial(&[kind.name().as_bytes(), &exp_bytes]);
        }
    } else {
        let multi = n_entries >= 2 || info.nested_maps > 0 || exp_bytes.len() > 24;
        if multi {
            obs.nontrivial(&[kind.name().as_bytes(), &out]);
        }
    }
    if n_entries == 0 {
        obs.label("empty-body");
    }
    obs.sample_with(|| {
        json!({"kind": kind.name(), "members_set": info.present, "members_unset": info.absent,
               "model": refcbor::diag(&exp), "output_hex": hex(&out[..out.len().min(200)]), "output_len": out.len()})
    });
    match mode {
        Mode::Members => {
            check_encoding(kind, &model, &out)
                .map_err(|m| Fail::new(sig_of(prop, kind.name(), &m), format!("{} response: {}", kind.name(), m), case(&out)))?;
            // serialising the same response again into the buffer that holds its own output
            {
                use ctap_types::Vec as HVec;
                let mut buf: HVec<u8, 7609> = HVec::new();
                resp.serialize(&mut buf);
                resp.serialize(&mut buf);
                if buf.as_slice() != &out[..] {
                    return Err(Fail::new(
                        format!("C02:{}:not-idempotent", kind.name()),
                        format!("{} response serialised twice into the same buffer differs from serialising once", kind.name()),
                        case(&buf),
                    ));
                }
            }
            // the same response into a buffer that is not fresh (a reused transport buffer):
            // the encoded message must be the same
            let prior = [1usize, 2, 7, 64, 300, 7609][n_entries % 6];
            let dirty = serialize_dirty(&resp, prior);
            if dirty != out {
                return Err(Fail::new(
                    format!("C02:{}:depends-on-prior-buffer-contents:{}", kind.name(), if n_entries == 0 { "empty-body" } else { "with-body" }),
                    format!("{} response encodes differently into a buffer already holding {} bytes: {} vs {}", kind.name(), prior, hex(&dirty[..dirty.len().min(24)]), hex(&out[..out.len().min(24)])),
                    case(&dirty),
                ));
            }
            // the same value as a handler's answer, through the dispatch entry points: what
            // reaches the wire must be what the handler returned
            {
                let entry = (n_entries + prior) % 2;
                let ename = ["call_ctap2", "Rpc::call"][entry];
                obs.labelf(format!("via-dispatch:{}", ename));
                match crate::echo::through_dispatch(&resp, entry).map_err(|e| Fail::new("C02:harness:dispatch", e, case(&out)))? {
                    Ok(r) => {
                        let via = serialize_full(&r);
                        if via != out {
                            let what = match check_encoding(kind, &model, &via) {
                                Err(m) => m,
                                Ok(()) => "bytes differ".to_string(),
                            };
                            return Err(Fail::new(
                                format!("C02:{}:changed-by-dispatch:{}", kind.name(), sig_of("", "", &what)),
                                format!("{} response returned by the handler is encoded differently after {}: {}", kind.name(), ename, what),
                                case(&via),
                            ));
                        }
                    }
                    Err(st) => {
                        return Err(Fail::new(
                            format!("C02:{}:dispatch-status:0x{:02x}", kind.name(), st),
                            format!("{}: handler returned Ok(value) but {} returned status 0x{:02x}", kind.name(), ename, st),
                            case(&out),
                        ))
                    }
                }
            }
            if kind == Kind::GetAssertion {
                let next = build(Kind::GetNextAssertion, &model)
                    .map_err(|e| Fail::new("C02:harness:build", e, case(&out)))?;
                let out2 = serialize_full(&next);
                if out2 != out {
                    return Err(Fail::new(
                        "C02:GetNextAssertion:differs-from-GetAssertion",
                        "GetNextAssertion(r) and GetAssertion(r) encode differently",
                        json!({"model_hex": hex(&refcbor::encode_canonical(&model)), "get_assertion": hex(&out), "get_next_assertion": hex(&out2)}),
                    ));
                }
            }
        }
        Mode::Canonical => {
            if out.is_empty() || out[0] != 0 {
                return Err(Fail::new(format!("C03:{}:status", kind.name()), "response did not serialise", case(&out)));
            }
            // what reaches the wire after the value travelled through the dispatcher as a
            // handler's answer (to a request that is related to it) must be canonical as well
            if let Ok(Ok(r)) = crate::echo::through_dispatch(&resp, n_entries % 2) {
                let via = serialize_full(&r);
                obs.label("via-dispatch");
                if via.len() > 1 {
                    refcbor::check_canonical(&via[1..]).map_err(|m| {
                        Fail::new(
                            format!("{}:via-dispatch", sig_of(prop, kind.name(), &m)),
                            format!("{} response body after call_ctap2 / Rpc::call is not canonical CBOR: {}", kind.name(), m),
                            case(&via),
                        )
                    })?;
                }
            }
            if out.len() > 1 {
                refcbor::check_canonical(&out[1..]).map_err(|m| {
                    Fail::new(
                        sig_of(prop, kind.name(), &m),
                        format!("{} response body is not canonical CBOR: {}", kind.name(), m),
                        case(&out),
                    )
                })?;
            }
            // transport buffers are reused: whatever sits behind the status byte after serialising
            // into a buffer that already held a message (the same one) or other bytes must be one
            // canonical item as well - no stale bytes in front of, behind or instead of the body
            for (what, reused) in [("reused-buffer", crate::respmodel::serialize_twice(&resp)), ("dirty-buffer", serialize_dirty(&resp, 1 + (n_entries * 7) % 40))] {
                obs.label(what);
                if reused.len() > 1 {
                    refcbor::check_canonical(&reused[1..]).map_err(|m| {
                        Fail::new(
                            format!("{}:{}", sig_of(prop, kind.name(), &m), what),
                            format!("{} response serialised into a {}: what follows the status byte is not one canonical CBOR item: {}", kind.name(), what, m),
                            case(&reused),
                        )
                    })?;
                }
            }
        }
    }
    Ok(())
}

macro_rules! kind_gens {
    ($($fname:ident, $cname:ident, $gname:expr, $kind:expr, $mode:expr;)*) => {
        $(
            fn $fname(s: &mut Src, o: &mut Obs) -> CaseResult { resp_case($kind, $mode, s, o) }
            pub const $cname: Gen = Gen { name: $gname, f: $fname };
        )*
    };
}

kind_gens! {
    m_gi, M_GI, "c02_getinfo", Kind::GetInfo, Mode::Members;
    m_mc, M_MC, "c02_makecredential", Kind::MakeCredential, Mode::Members;
    m_ga, M_GA, "c02_getassertion", Kind::GetAssertion, Mode::Members;
    m_gn, M_GN, "c02_getnextassertion", Kind::GetNextAssertion, Mode::Members;
    m_cp, M_CP, "c02_clientpin", Kind::ClientPin, Mode::Members;
    m_cm, M_CM, "c02_credentialmanagement", Kind::CredentialManagement, Mode::Members;
    m_lb, M_LB, "c02_largeblobs", Kind::LargeBlobs, Mode::Members;
    m_rs, M_RS, "c02_reset", Kind::Reset, Mode::Members;
    m_se, M_SE, "c02_selection", Kind::Selection, Mode::Members;
    m_ve, M_VE, "c02_vendor", Kind::Vendor, Mode::Members;
    k_gi, K_GI, "c03_getinfo", Kind::GetInfo, Mode::Canonical;
    k_mc, K_MC, "c03_makecredential", Kind::MakeCredential, Mode::Canonical;
    k_ga, K_GA, "c03_getassertion", Kind::GetAssertion, Mode::Canonical;
    k_gn, K_GN, "c03_getnextassertion", Kind::GetNextAssertion, Mode::Canonical;
    k_cp, K_CP, "c03_clientpin", Kind::ClientPin, Mode::Canonical;
    k_cm, K_CM, "c03_credentialmanagement", Kind::CredentialManagement, Mode::Canonical;
    k_lb, K_LB, "c03_largeblobs", Kind::LargeBlobs, Mode::Canonical;
}

pub fn gen_of(kind: Kind, mode: Mode) -> Gen {
    match (mode, kind) {
        (Mode::Members, Kind::GetInfo) => M_GI,
        (Mode::Members, Kind::MakeCredential) => M_MC,
        (Mode::Members, Kind::GetAssertion) => M_GA,
        (Mode::Members, Kind::GetNextAssertion) => M_GN,
        (Mode::Members, Kind::ClientPin) => M_CP,
        (Mode::Members, Kind::CredentialManagement) => M_CM,
        (Mode::Members, Kind::LargeBlobs) => M_LB,
        (Mode::Members, Kind::Reset) => M_RS,
        (Mode::Members, Kind::Selection) => M_SE,
        (Mode::Members, Kind::Vendor) => M_VE,
        (Mode::Canonical, Kind::GetInfo) => K_GI,
        (Mode::Canonical, Kind::MakeCredential) => K_MC,
        (Mode::Canonical, Kind::GetAssertion) => K_GA,
        (Mode::Canonical, Kind::GetNextAssertion) => K_GN,
        (Mode::Canonical, Kind::ClientPin) => K_CP,
        (Mode::Canonical, Kind::CredentialManagement) => K_CM,
        (Mode::Canonical, _) => K_LB,
    }
}

/// every small value through each unsigned response member (values code may special-case).
/// words: [member selector (raw), value (raw)]
fn m_uint(src: &mut Src, obs: &mut Obs) -> CaseResult {
    let sel = src.word() as usize;
    let val = src.word() as u64;
    let ki = |k: i64, v: Value| (Value::int(k), v);
    let uints: Vec<i64> = getinfo_optional().iter().filter(|(_, k)| *k == GiKind::Uint).map(|(k, _)| *k).collect();
    let n = uints.len() + 4;
    obs.label("uint-sweep");
    let (kind, model) = if sel % n < uints.len() {
        (Kind::GetInfo, Value::Map(vec![ki(1, Value::Array(vec![Value::text("U2F_V2")])), ki(3, Value::Bytes(vec![9; 16])), ki(uints[sel % n], Value::Uint(val))]))
    } else {
        match sel % n - uints.len() {
            0 => (Kind::CredentialManagement, Value::Map(vec![ki(1, Value::Uint(val)), ki(2, Value::Uint(val / 3)), ki(5, Value::Uint(val)), ki(9, Value::Uint(val + 1))])),
            1 => (Kind::ClientPin, Value::Map(vec![ki(3, Value::Uint(val % 256)), ki(5, Value::Uint((val / 256) % 256))])),
            2 => (
                Kind::GetAssertion,
                Value::Map(vec![
                    ki(1, Value::Map(vec![(Value::text("id"), Value::Bytes(vec![1])), (Value::text("type"), Value::text("public-key"))])),
                    ki(2, Value::Bytes(vec![2; 37])),
                    ki(3, Value::Bytes(vec![3; 70])),
                    ki(5, Value::Uint(val)),
                ]),
            ),
            _ => (Kind::GetInfo, Value::Map(vec![ki(1, Value::Array(vec![])), ki(3, Value::Bytes(vec![0; 16])), ki(6, Value::Array(vec![Value::Uint(val % 256), Value::Uint((val / 7) % 256)]))])),
        }
    };
    resp_check(kind, Mode::Members, &model, RInfo::default(), obs)
}
pub const M_UINT: Gen = Gen { name: "c02_uint", f: m_uint };

/// every length of every freely sizeable byte / text member of the all-members-present response.
/// words: [kind, leaf selector (raw), length (raw)]
fn len_case(mode: Mode, src: &mut Src, obs: &mut Obs) -> CaseResult {
    let kind = KINDS[src.below(KINDS.len())];
    let li = src.word() as usize;
    let len = src.word() as usize;
    let mut model = full_model(kind);
    let leaves = string_leaves(&model);
    if leaves.is_empty() {
        obs.label("length-sweep:not-applicable");
        return Ok(());
    }
    let path = leaves[li % leaves.len()].clone();
    set_leaf_len(&mut model, &path, len % 4096);
    if build(kind, &model).is_err() {
        obs.label("length-sweep:not-applicable");
        return Ok(());
    }
    obs.label("length-sweep");
    let info = RInfo { present: 2, absent: 1, ..RInfo::default() };
    resp_check(kind, mode, &model, info, obs)
}
fn m_len(s: &mut Src, o: &mut Obs) -> CaseResult {
    len_case(Mode::Members, s, o)
}
fn k_len(s: &mut Src, o: &mut Obs) -> CaseResult {
    len_case(Mode::Canonical, s, o)
}
pub const M_LEN: Gen = Gen { name: "c02_len", f: m_len };
pub const K_LEN: Gen = Gen { name: "c03_len", f: k_len };

/// enumerate (kind, leaf, length) for every freely sizeable leaf and every length 0..=max
pub fn run_len_sweep(ctx: &mut Ctx, mode: Mode) {
    let g = if mode == Mode::Members { M_LEN } else { K_LEN };
    let mut total = 0usize;
    for (ki, kind) in KINDS.iter().enumerate() {
        let model = full_model(*kind);
        let leaves = string_leaves(&model);
        for (li, path) in leaves.iter().enumerate() {
            let Some(max) = max_leaf_len(*kind, &model, path) else { continue };
            // quick: every length up to 300 and around every head-width change, every 7th beyond
            let quick = ctx.quick();
            let lens: Vec<Vec<u32>> = (0..=max)
                .filter(|l| !quick || *l <= 300 || *l % 7 == 0 || max - *l <= 2 || (1022..=1026).contains(l))
                .map(|l| vec![idx(ki, KINDS.len()), li as u32, l as u32])
                .collect();
            total += lens.len();
            ctx.enumerate(&g, lens.into_iter());
        }
    }
    ctx.exhaustive.push(format!("every length 0..=max of every freely sizeable byte/text member of the all-members response of every kind ({} cases; quick: every length <= 300, every 7th beyond)", total));
}

pub fn gens() -> Vec<Gen> {
    vec![M_UINT, M_LEN, M_GI, M_MC, M_GA, M_GN, M_CP, M_CM, M_LB, M_RS, M_SE, M_VE, M_CONCRETE]
}

/// every subset of k flags when 2^k is enumerable, else none + singletons + pairs + full
pub fn subsets(k: usize, limit_bits: usize) -> Vec<Vec<bool>> {
    let mut out = vec![];
    if k <= limit_bits {
        for mask in 0..(1u64 << k) {
            out.push((0..k).map(|i| mask >> i & 1 == 1).collect());
        }
    } else {
        out.push(vec![false; k]);
        out.push(vec![true; k]);
        for i in 0..k {
            let mut v = vec![false; k];
            v[i] = true;
            out.push(v);
        }
        for i in 0..k {
            for j in (i + 1)..k {
                let mut v = vec![false; k];
                v[i] = true;
                v[j] = true;
                out.push(v);
            }
        }
    }
    out
}

pub fn to_words(bits: &[bool]) -> Vec<u32> {
    bits.iter().map(|b| bit(*b)).collect()
}

/// presence prefixes for a response kind: (top-level prefixes, nested prefixes)
pub fn presence_prefixes(kind: Kind) -> Vec<Vec<u32>> {
    let k = presence_bits(kind);
    let mut out: Vec<Vec<u32>> = subsets(k, 12).iter().map(|b| to_words(b)).collect();
    match kind {
        Kind::GetInfo => {
            // options member present (index 1 in the optional list), every subset / pairs of option ids
            let nopt = gi_opt_count();
            let mut top = vec![false; k];
            top[1] = true;
            for s in subsets(nopt, 8) {
                let mut w = to_words(&top);
                w.extend(to_words(&s));
                out.push(w);
            }
            if gif() {
                // certifications present (0x13): every subset of the six certifications
                let ci = getinfo_optional().iter().position(|(key, _)| *key == 0x13).unwrap();
                let mut top = vec![false; k];
                top[ci] = true;
                for s in subsets(6, 8) {
                    let mut w = to_words(&top);
                    w.extend(to_words(&vec![false; nopt]));
                    w.extend(to_words(&s));
                    out.push(w);
                }
            }
        }
        Kind::MakeCredential => {
            // attStmt present: none / packed / packed+x5c
            for (packed, x5c) in [(false, false), (true, false), (true, true)] {
                let mut w = to_words(&[true, true, true, true]);
                w.push(bit(packed));
                w.push(bit(x5c));
                out.push(w);
            }
        }
        Kind::GetAssertion | Kind::GetNextAssertion => {
            for um in 0..8u32 {
                for (packed, x5c) in [(false, false), (true, false), (true, true)] {
                    let mut w = to_words(&[true; GA_OPT]);
                    for i in 0..3 {
                        w.push(bit(um >> i & 1 == 1));
                    }
                    w.push(bit(packed));
                    w.push(bit(x5c));
                    out.push(w);
                }
            }
        }
        Kind::CredentialManagement => {
            // nested: rp.name, rp.icon-set, user members, all four COSE kinds
            for nm in 0..32u32 {
                for cose in 0..4usize {
                    let mut w = to_words(&vec![true; k]);
                    for i in 0..5 {
                        w.push(bit(nm >> i & 1 == 1));
                    }
                    w.push(crate::run::idx(cose, 4));
                    out.push(w);
                }
            }
        }
        _ => {}
    }
    out
}

pub const RULE: &str = "Responses are described by a reference-CBOR map built from the specification's response key tables; the real ctap-types value is constructed from that description through the public API only (builders, Default, pub-field assignment), serialised with Response::serialize into a 7609-byte buffer and parsed by the independent reference parser. Every subset of optional members is enumerated where 2^k <= 4096 (MakeCredential, GetAssertion, ClientPin, CredentialManagement, LargeBlobs, GetInfo without get-info-full, option ids, certifications); none/singletons/all pairs/full otherwise (GetInfo and option ids under get-info-full); nested presence combinations, both attestation statement shapes and all four COSE key kinds are enumerated; proptest supplies member values (lattice + random) and additional free cases. Oracle: output = 0x00 || exactly one map equal to the description under order-insensitive comparison with duplicate and null detection, or 0x00 alone when nothing is set / the kind has no parameters; GetNextAssertion(r) == GetAssertion(r); serialising twice / into a dirty buffer / after travelling through call_ctap2 or Rpc::call as an echoing authenticator's answer gives the same bytes. In addition: every value 0..=4200 and around every power of two through every unsigned member; every length 0..=max of every freely sizeable byte/text member of the all-members response of every kind; GetInfo values equal to (or one step from) Response::default(); algorithm lists with arbitrary identifiers in the public alg field; equal-content relations between members. Non-trivial: >=1 optional member set and >=1 unset, or a nested map present; distinct by (kind, canonical rendering of the description).";
pub const ASSUMPTIONS: &[&str] = &[
    "respmodel.rs key tables transcribe the CTAP 2.1/2.2 response tables; enum spellings come from the specification",
    "refcbor strict parser is correct (guarded by `ctv selftest`)",
    "key order is deliberately not judged here (C03 does)",
    "make_credential::UnsignedExtensionOutputs is constructed through the cfg(ctap_types_verif) Default hook",
];

pub fn run_mode(ctx: &mut Ctx, mode: Mode) {
    let per_prefix = ctx.t(6, 40);
    let free = ctx.t(4_000, 60_000);
    for kind in KINDS {
        if mode == Mode::Canonical && !kind.has_params() {
            continue;
        }
        let g = gen_of(kind, mode);
        let prefixes = presence_prefixes(kind);
        for p in &prefixes {
            ctx.random(&g, p, per_prefix, 700);
            if ctx.too_many() {
                return;
            }
        }
        ctx.random(&g, &[], if kind.has_params() { free } else { 20 }, 700);
        ctx.exhaustive.push(format!("{}: {} presence prefixes enumerated", kind.name(), prefixes.len()));
    }
}

pub fn run(ctx: &mut Ctx) {
    run_mode(ctx, Mode::Members);
    run_len_sweep(ctx, Mode::Members);
    // every value 0..=4200 and 2^k-1, 2^k, 2^k+1 through every unsigned member (quick: every 3rd)
    let n_members = getinfo_optional().iter().filter(|(_, k)| *k == GiKind::Uint).count() + 4;
    let mut vals: Vec<u32> = (0..=4200u32).collect();
    for b in 13..32 {
        vals.extend_from_slice(&[(1u32 << b) - 1, 1u32 << b, (1u32 << b) + 1]);
    }
    vals.push(u32::MAX - 1);
    let vstep = ctx.t(3usize, 1);
    for m in 0..n_members {
        let vs: Vec<Vec<u32>> = vals.iter().skip(m % vstep).step_by(vstep).map(|v| vec![m as u32, *v]).collect();
        ctx.enumerate(&M_UINT, vs.into_iter());
    }
    ctx.exhaustive.push("every value 0..=4200 and 2^k-1,2^k,2^k+1 through every unsigned response member (quick: every 3rd value)".into());
    let mut req = vec![
        "GetInfo", "MakeCredential", "GetAssertion", "GetNextAssertion", "ClientPin", "CredentialManagement",
        "LargeBlobs", "Reset", "Selection", "Vendor", "empty-body", "attStmt:none", "attStmt:packed",
        "attStmt:packed+x5c", "cose:P256", "cose:EcdhEsHkdf256", "cose:Ed25519", "cose:Totp",
        "rp-icon-set-not-emitted", "uint-sweep", "length-sweep", "algorithms:any-identifier", "getinfo:default-value",
    ];
    if GIF {
        req.push("getinfo:uint>u32");
    }
    ctx.require(&req);
}
