//! `ctv` - verification harness for trussed-dev/ctap-types (property-based testing and fuzzing).
//! The library part is shared by the `ctv` binary (proptest / enumeration driver) and by the
//! cargo-fuzz targets in /verif/fuzz (coverage-guided search over the same generators/oracles).
pub mod caps;
pub mod echo;
pub mod mutate;
pub mod props;
pub mod refcbor;
pub mod reqmodel;
pub mod respmodel;
pub mod run;
pub mod types;
pub mod util;
