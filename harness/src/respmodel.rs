//! Response models. A response is described by a reference-CBOR `Value`: the map the
//! specification says the authenticator must emit (keys from the specification's tables).
//! `build` constructs the real `ctap_types` value from such a description through the public
//! API only; `expected` is the description with build-only annotations removed.
//!
//! Text keys that start with NUL are annotations for `build` (e.g. "the rp icon field is set")
//! and are not part of the expected encoding.

use crate::refcbor::{self, Value};
use crate::util::{lattice_len, lattice_uint, text_of_len, Src};
use ctap_types::ctap2::{self, get_info};
use ctap_types::serde::cbor_deserialize;
use ctap_types::webauthn::*;
use ctap_types::{ByteArray, Bytes, String as HString, Vec as HVec};

#[derive(Clone, Copy, Debug, PartialEq, Eq)]
pub enum Kind {
    GetInfo,
    MakeCredential,
    GetAssertion,
    GetNextAssertion,
    ClientPin,
    CredentialManagement,
    LargeBlobs,
    Reset,
    Selection,
    Vendor,
}

pub const KINDS: [Kind; 10] = [
    Kind::GetInfo,
    Kind::MakeCredential,
    Kind::GetAssertion,
    Kind::GetNextAssertion,
    Kind::ClientPin,
    Kind::CredentialManagement,
    Kind::LargeBlobs,
    Kind::Reset,
    Kind::Selection,
    Kind::Vendor,
];

impl Kind {
    pub fn name(self) -> &'static str {
        match self {
            Kind::GetInfo => "GetInfo",
            Kind::MakeCredential => "MakeCredential",
            Kind::GetAssertion => "GetAssertion",
            Kind::GetNextAssertion => "GetNextAssertion",
            Kind::ClientPin => "ClientPin",
            Kind::CredentialManagement => "CredentialManagement",
            Kind::LargeBlobs => "LargeBlobs",
            Kind::Reset => "Reset",
            Kind::Selection => "Selection",
            Kind::Vendor => "Vendor",
        }
    }
    pub fn from_name(s: &str) -> Option<Kind> {
        KINDS.iter().copied().find(|k| k.name() == s)
    }
    pub fn has_params(self) -> bool {
        !matches!(self, Kind::Reset | Kind::Selection | Kind::Vendor)
    }
}

pub const GIF: bool = cfg!(feature = "gif");
pub const LB: bool = cfg!(feature = "lb");
pub const TPP: bool = cfg!(feature = "tpp");

thread_local! {
    /// C16: restrict every generator to the members that exist in every feature configuration
    static COMMON_ONLY: std::cell::Cell<bool> = const { std::cell::Cell::new(false) };
}
pub fn set_common_only(b: bool) {
    COMMON_ONLY.with(|c| c.set(b));
}
pub fn is_common_only() -> bool {
    common_only()
}

fn common_only() -> bool {
    COMMON_ONLY.with(|c| c.get())
}
/// feature switches as seen by the generators
pub fn gif() -> bool {
    GIF && !common_only()
}
pub fn tpp() -> bool {
    TPP && !common_only()
}
pub fn lb_cap() -> usize {
    if LB && !common_only() {
        3008
    } else {
        0
    }
}

#[derive(Default, Clone, Debug)]
pub struct RInfo {
    pub present: u32,
    pub absent: u32,
    pub nested_maps: u32,
    pub labels: Vec<String>,
}

impl RInfo {
    fn opt(&mut self, p: bool) -> bool {
        if p {
            self.present += 1;
        } else {
            self.absent += 1;
        }
        p
    }
    pub fn nontrivial(&self) -> bool {
        (self.present > 0 && self.absent > 0) || self.nested_maps > 0
    }
    fn l(&mut self, s: &str) {
        self.labels.push(s.to_string());
    }
}

fn kv(k: i64, v: Value) -> (Value, Value) {
    (Value::int(k), v)
}
fn ks(k: &str, v: Value) -> (Value, Value) {
    (Value::text(k), v)
}
fn hidden(k: &str) -> Value {
    Value::Text(format!("\0{}", k).into_bytes())
}

/// remove build-only annotations
pub fn expected(v: &Value) -> Value {
    match v {
        Value::Map(m) => Value::Map(
            m.iter()
                .filter(|(k, _)| !matches!(k, Value::Text(t) if t.first() == Some(&0)))
                .map(|(k, x)| (k.clone(), expected(x)))
                .collect(),
        ),
        Value::Array(a) => Value::Array(a.iter().map(expected).collect()),
        other => other.clone(),
    }
}

// ------------------------------------------------------------------------------------------
// specification tables

pub const VERSIONS: [&str; 4] = ["FIDO_2_0", "FIDO_2_1", "FIDO_2_1_PRE", "U2F_V2"];
pub const EXTENSIONS: [&str; 4] = ["credProtect", "hmac-secret", "largeBlobKey", "thirdPartyPayment"];
pub const TRANSPORTS: [&str; 2] = ["nfc", "usb"];
pub const ATT_FORMATS: [&str; 2] = ["packed", "none"];

/// option ids of authenticatorGetInfo (CTAP 2.1 §6.4), in specification order;
/// (name, needs get-info-full, always emitted)
pub const OPTION_KEYS: [(&str, bool, bool); 19] = [
    ("ep", true, false),
    ("rk", false, true),
    ("up", false, true),
    ("uv", false, false),
    ("plat", false, false),
    ("uvAcfg", true, false),
    ("alwaysUv", true, false),
    ("credMgmt", false, false),
    ("authnrCfg", true, false),
    ("bioEnroll", true, false),
    ("clientPin", false, false),
    ("largeBlobs", false, false),
    ("uvBioEnroll", true, false),
    ("setMinPINLength", true, false),
    ("pinUvAuthToken", false, false),
    ("makeCredUvNotRqd", true, false),
    ("credentialMgmtPreview", true, false),
    ("userVerificationMgmtPreview", true, false),
    ("noMcGaPermissionsWithClientPin", true, false),
];

pub const CERT_KEYS: [&str; 6] =
    ["FIPS-CMVP-2", "FIPS-CMVP-3", "FIPS-CMVP-2-PHY", "FIPS-CMVP-3-PHY", "CC-EAL", "FIDO"];

/// optional option keys available in this configuration
pub fn optional_option_keys() -> Vec<&'static str> {
    OPTION_KEYS
        .iter()
        .filter(|(_, full, always)| !*always && (gif() || !*full))
        .map(|(k, _, _)| *k)
        .collect()
}

/// GetInfo optional top-level members in this configuration: (key, kind)
#[derive(Clone, Copy, Debug, PartialEq, Eq)]
pub enum GiKind {
    Extensions,
    Options,
    Uint,
    PinProtocols,
    Transports,
    Algorithms,
    Bool,
    Certifications,
    AttFormats,
}

pub fn getinfo_optional() -> Vec<(i64, GiKind)> {
    let mut v = vec![
        (0x02, GiKind::Extensions),
        (0x04, GiKind::Options),
        (0x05, GiKind::Uint),
        (0x06, GiKind::PinProtocols),
        (0x07, GiKind::Uint),
        (0x08, GiKind::Uint),
        (0x09, GiKind::Transports),
        (0x0A, GiKind::Algorithms),
        (0x0B, GiKind::Uint),
    ];
    if gif() {
        v.extend_from_slice(&[
            (0x0C, GiKind::Bool),
            (0x0D, GiKind::Uint),
            (0x0E, GiKind::Uint),
            (0x0F, GiKind::Uint),
            (0x10, GiKind::Uint),
            (0x11, GiKind::Uint),
            (0x12, GiKind::Uint),
            (0x13, GiKind::Certifications),
            (0x14, GiKind::Uint),
            (0x15, GiKind::Uint),
            (0x16, GiKind::AttFormats),
            (0x17, GiKind::Uint),
            (0x18, GiKind::Bool),
        ]);
    }
    v
}

// ------------------------------------------------------------------------------------------
// generators

fn bytes_cap(src: &mut Src, cap: usize) -> Value {
    let n = lattice_len(src, cap);
    Value::Bytes(src.bytes(n))
}

fn text_cap(src: &mut Src, cap: usize) -> Value {
    let n = lattice_len(src, cap);
    Value::Text(text_of_len(src, n).into_bytes())
}

fn list_of(src: &mut Src, names: &[&str], max: usize) -> Value {
    let n = src.range(0, max);
    Value::Array((0..n).map(|_| Value::text(*src.pick(names))).collect())
}

pub fn gen_options_map(src: &mut Src, info: &mut RInfo, presence: &[bool]) -> Value {
    let mut m = vec![];
    let mut i = 0;
    for (k, full, always) in OPTION_KEYS.iter() {
        if *always {
            m.push(ks(k, Value::Bool(src.bool())));
        } else if gif() || !*full {
            let p = presence.get(i).copied().unwrap_or(false);
            i += 1;
            if info.opt(p) {
                m.push(ks(k, Value::Bool(src.bool())));
            }
        }
    }
    info.nested_maps += 1;
    Value::Map(m)
}

pub fn gen_certs_map(src: &mut Src, info: &mut RInfo, presence: &[bool]) -> Value {
    let mut m = vec![];
    for (i, k) in CERT_KEYS.iter().enumerate() {
        if info.opt(presence.get(i).copied().unwrap_or(false)) {
            m.push(ks(k, Value::Uint(lattice_uint(src, 255))));
        }
    }
    info.nested_maps += 1;
    Value::Map(m)
}

pub fn gen_algorithms(src: &mut Src) -> Value {
    let n = src.range(0, 2);
    Value::Array(
        (0..n)
            .map(|_| {
                Value::Map(vec![
                    ks("alg", Value::int(if src.bool() { -7 } else { -8 })),
                    ks("type", Value::text("public-key")),
                ])
            })
            .collect(),
    )
}

pub fn gi_top_count() -> usize {
    getinfo_optional().len()
}
pub fn gi_opt_count() -> usize {
    optional_option_keys().len()
}

/// authenticatorGetInfo response.
/// words: [top presence bits (9 / 22)] [option presence bits (6 / 17)] [cert presence bits (6)] values...
pub fn gen_getinfo(src: &mut Src, info: &mut RInfo) -> Value {
    gen_getinfo_ex(src, info, false)
}

/// `encode_only`: the value is only ever encoded (C02/C03/C16/C17), so the `algorithms` member may
/// carry any algorithm identifier an authenticator can put into the public `alg` field (decoding
/// would filter unknown ones), and the model is occasionally replaced by the value that equals
/// `get_info::Response::default()` (a value that `==`-based short cuts single out).
pub fn gen_getinfo_ex(src: &mut Src, info: &mut RInfo, encode_only: bool) -> Value {
    let opt = getinfo_optional();
    let top: Vec<bool> = (0..opt.len()).map(|_| src.bool()).collect();
    let po: Vec<bool> = (0..gi_opt_count()).map(|_| src.bool()).collect();
    let pc: Vec<bool> = (0..6).map(|_| src.bool()).collect();
    let mut m = vec![kv(1, list_of(src, &VERSIONS, 4))];
    let aaguid = if src.chance(3, 4) { Value::Bytes(src.bytes(16)) } else { bytes_cap(src, 16) };
    m.push(kv(3, aaguid));
    for (i, (key, kind)) in opt.iter().enumerate() {
        if !info.opt(top[i]) {
            continue;
        }
        let v = match kind {
            GiKind::Extensions => list_of(src, &EXTENSIONS, 4),
            GiKind::Options => gen_options_map(src, info, &po),
            GiKind::Uint => {
                let u = lattice_uint(src, u64::MAX);
                if u > u32::MAX as u64 {
                    info.l("getinfo:uint>u32");
                }
                Value::Uint(u)
            }
            GiKind::PinProtocols => {
                let n = src.range(0, 2);
                Value::Array((0..n).map(|_| Value::Uint(lattice_uint(src, 255))).collect())
            }
            GiKind::Transports => list_of(src, &TRANSPORTS, 4),
            GiKind::Algorithms => {
                if encode_only && src.chance(1, 4) {
                    info.l("algorithms:any-identifier");
                    let n = src.range(0, 2);
                    Value::Array(
                        (0..n)
                            .map(|_| {
                                let alg = match src.below(6) {
                                    0 => -7,
                                    1 => -8,
                                    2 => -257,
                                    3 => 0,
                                    4 => i32::MIN as i64,
                                    _ => (src.word() as i32) as i64,
                                };
                                Value::Map(vec![ks("alg", Value::int(alg)), ks("type", Value::text("public-key"))])
                            })
                            .collect(),
                    )
                } else {
                    gen_algorithms(src)
                }
            }
            GiKind::Bool => Value::Bool(src.bool()),
            GiKind::Certifications => gen_certs_map(src, info, &pc),
            GiKind::AttFormats => list_of(src, &ATT_FORMATS, 2),
        };
        m.push(kv(*key, v));
    }
    if encode_only && src.chance(1, 16) {
        // exactly the value of `get_info::Response::default()`, or one step away from it
        info.l("getinfo:default-value");
        let mut d = vec![
            kv(1, Value::Array(vec![])),
            kv(3, Value::Bytes(vec![0; 16])),
            kv(4, Value::Map(vec![ks("rk", Value::Bool(false)), ks("up", Value::Bool(true))])),
        ];
        match src.below(4) {
            0 | 1 => {}
            2 => d[1] = kv(3, Value::Bytes(vec![0, 0, 0, 0, 0, 0, 0, 0, 0, 0, 0, 0, 0, 0, 0, 1])),
            _ => {
                d.pop();
            }
        }
        return Value::Map(d);
    }
    Value::Map(m)
}

pub fn gen_user_entity(src: &mut Src, info: &mut RInfo, p: [bool; 3]) -> Value {
    let mut m = vec![ks("id", bytes_cap(src, 64))];
    if info.opt(p[0]) {
        m.push(ks("icon", text_cap(src, 128)));
    }
    let mut last_name: Option<Value> = None;
    if info.opt(p[1]) {
        let n = text_cap(src, 64);
        last_name = Some(n.clone());
        m.push(ks("name", n));
    }
    if info.opt(p[2]) {
        let d = match (&last_name, src.chance(1, 8)) {
            (Some(n), true) => {
                info.l("relation:displayName==name");
                n.clone()
            }
            _ => text_cap(src, 64),
        };
        m.push(ks("displayName", d));
    }
    info.nested_maps += 1;
    Value::Map(m)
}

pub fn gen_rp_entity(src: &mut Src, info: &mut RInfo, p_name: bool, icon_set: bool) -> Value {
    let id = if src.chance(1, 3) { text_cap(src, 64) } else { text_cap(src, 256) };
    let mut m = vec![ks("id", id.clone())];
    if info.opt(p_name) {
        // sometimes the name merely repeats the id: equal contents
        let same = src.chance(1, 6) && id.as_text().map(|t| t.len() <= 64).unwrap_or(false);
        if same {
            info.l("relation:rp.name==rp.id");
        }
        m.push(ks("name", if same { id } else { text_cap(src, 64) }));
    }
    if icon_set {
        // the icon placeholder is set: it must NOT be emitted
        m.push((hidden("icon-set"), Value::Bool(true)));
        info.l("rp-icon-set-not-emitted");
    }
    info.nested_maps += 1;
    Value::Map(m)
}

pub fn gen_descriptor(src: &mut Src, info: &mut RInfo) -> Value {
    let ty = if src.chance(2, 3) { Value::text("public-key") } else { text_cap(src, 32) };
    info.nested_maps += 1;
    Value::Map(vec![ks("id", bytes_cap(src, 255)), ks("type", ty)])
}

/// attestation statement: none -> {}, packed -> {alg, sig, x5c?}
pub fn gen_att_stmt(src: &mut Src, info: &mut RInfo, packed: bool, x5c: bool) -> Value {
    info.nested_maps += 1;
    if !packed {
        info.l("attStmt:none");
        return Value::Map(vec![]);
    }
    let alg = match src.below(6) {
        0 => -7,
        1 => -8,
        2 => i32::MIN as i64,
        3 => i32::MAX as i64,
        4 => -257,
        _ => (src.word() as i32) as i64,
    };
    // signatures as crypto back ends produce them: 64 raw bytes (r || s), a DER sequence of 70-72 bytes, or anything
    let sig = match src.below(5) {
        0 => Value::Bytes(src.bytes(64)),
        1 => {
            let n = 70 + src.below(3);
            let mut b = src.bytes(n);
            b[0] = 0x30;
            b[1] = (n - 2) as u8;
            Value::Bytes(b)
        }
        _ => bytes_cap(src, 77),
    };
    let mut m = vec![ks("alg", Value::int(alg)), ks("sig", sig)];
    if info.opt(x5c) {
        info.l("attStmt:packed+x5c");
        let n = src.below(2);
        m.push(ks(
            "x5c",
            Value::Array(
                (0..n)
                    .map(|_| {
                        if src.chance(1, 3) {
                            // what the member is for: one DER certificate, or a chain of two or three
                            // back to back (leaf + intermediates), each SEQUENCE with an exact length
                            Value::Bytes(der_chain(src))
                        } else {
                            bytes_cap(src, 1024)
                        }
                    })
                    .collect(),
            ),
        ));
    } else {
        info.l("attStmt:packed");
    }
    Value::Map(m)
}

/// 1-3 well-formed DER SEQUENCE elements back to back, at most 1024 bytes in total
pub fn der_chain(src: &mut Src) -> Vec<u8> {
    let n = 1 + src.below(3);
    let mut out = vec![];
    for _ in 0..n {
        let body = *src.pick(&[0usize, 5, 100, 126, 127, 128, 200, 255, 256, 300]);
        let mut e = vec![0x30];
        if body < 128 {
            e.push(body as u8);
        } else if body < 256 {
            e.extend_from_slice(&[0x81, body as u8]);
        } else {
            e.extend_from_slice(&[0x82, (body >> 8) as u8, body as u8]);
        }
        e.extend((0..body).map(|i| if i + 1 == body && body % 2 == 0 { 0xFF } else { 0x02 + (i % 7) as u8 }));
        if out.len() + e.len() > 1024 {
            break;
        }
        out.extend_from_slice(&e);
    }
    out
}

pub fn gen_bytes32(src: &mut Src) -> Value {
    Value::Bytes(src.bytes(32))
}

pub const MC_OPT: usize = 4; // 3,4,5,6

/// authenticatorMakeCredential response. words: [p3,p4,p5,p6, packed, x5c, values...]
/// Authenticator data that IS authenticator data (what real authenticators put into member 2):
/// rpIdHash, flags, counter, and - with `attested` - AAGUID, credential id and a well-formed COSE
/// key, optionally followed by an extension map. Code that looks inside the blob must still emit it
/// byte for byte.
pub fn realistic_auth_data(src: &mut Src, attested: bool) -> Vec<u8> {
    let mut d = src.bytes(32);
    let ed = src.bool();
    let mut flags = if src.bool() { 0x01 } else { 0x05 };
    if attested {
        flags |= 0x40;
    }
    if ed {
        flags |= 0x80;
    }
    d.push(flags);
    d.extend_from_slice(&(src.word()).to_be_bytes());
    if attested {
        let aaguid: Vec<u8> = (0..16).map(|i| 0x10 + i as u8 + (src.byte() & 0x0F)).collect();
        d.extend_from_slice(&aaguid);
        let idl = *src.pick(&[16usize, 32, 64, 0, 1, 128]);
        d.extend_from_slice(&(idl as u16).to_be_bytes());
        d.extend(src.bytes(idl));
        let key = if src.bool() {
            Value::Map(vec![
                (Value::int(1), Value::Uint(2)),
                (Value::int(3), Value::int(-7)),
                (Value::int(-1), Value::Uint(1)),
                (Value::int(-2), Value::Bytes(src.bytes(32))),
                (Value::int(-3), Value::Bytes(src.bytes(32))),
            ])
        } else {
            Value::Map(vec![(Value::int(1), Value::Uint(1)), (Value::int(3), Value::int(-8)), (Value::int(-1), Value::Uint(6)), (Value::int(-2), Value::Bytes(src.bytes(32)))])
        };
        d.extend_from_slice(&refcbor::encode(&key));
    }
    if ed {
        let ext = Value::Map(vec![(Value::text("credProtect"), Value::Uint(1 + src.below(3) as u64)), (Value::text("hmac-secret"), Value::Bool(true))]);
        d.extend_from_slice(&refcbor::encode(&ext));
    }
    d.truncate(676);
    d
}

pub fn gen_mc_resp(src: &mut Src, info: &mut RInfo) -> Value {
    let p: Vec<bool> = (0..MC_OPT).map(|_| src.bool()).collect();
    let packed = src.bool();
    let x5c = src.bool();
    let mut m = vec![
        kv(1, Value::text(if src.bool() { "packed" } else { "none" })),
        kv(2, bytes_cap(src, 676)),
    ];
    if src.chance(1, 3) {
        info.l("authData:well-formed-attested");
        let attested = src.chance(7, 8);
        m[1] = kv(2, Value::Bytes(realistic_auth_data(src, attested)));
    }
    if info.opt(p[0]) {
        m.push(kv(3, gen_att_stmt(src, info, packed, x5c)));
    }
    if info.opt(p[1]) {
        m.push(kv(4, Value::Bool(src.bool())));
    }
    if info.opt(p[2]) {
        m.push(kv(5, gen_bytes32(src)));
    }
    if info.opt(p[3]) {
        info.nested_maps += 1;
        m.push(kv(6, Value::Map(vec![])));
    }
    Value::Map(m)
}

pub const GA_OPT: usize = 7; // 4..=10

/// authenticatorGetAssertion response.
/// words: [p4..p10, u.icon,u.name,u.disp, packed, x5c, values...]
pub fn gen_ga_resp(src: &mut Src, info: &mut RInfo) -> Value {
    let p: Vec<bool> = (0..GA_OPT).map(|_| src.bool()).collect();
    let pu = [src.bool(), src.bool(), src.bool()];
    let packed = src.bool();
    let x5c = src.bool();
    let mut m = vec![
        kv(1, gen_descriptor(src, info)),
        kv(2, bytes_cap(src, 676)),
        kv(3, bytes_cap(src, 77)),
    ];
    if src.chance(1, 4) {
        info.l("authData:well-formed");
        m[1] = kv(2, Value::Bytes(realistic_auth_data(src, false)));
        // a signature that looks like what ES256 produces: 64 raw bytes or a DER sequence
        if src.bool() {
            m[2] = kv(3, Value::Bytes(src.bytes(64)));
        }
    }
    if info.opt(p[0]) {
        m.push(kv(4, gen_user_entity(src, info, pu)));
    }
    if info.opt(p[1]) {
        m.push(kv(5, Value::Uint(lattice_uint(src, u32::MAX as u64))));
    }
    if info.opt(p[2]) {
        m.push(kv(6, Value::Bool(src.bool())));
    }
    if info.opt(p[3]) {
        m.push(kv(7, gen_bytes32(src)));
    }
    if info.opt(p[4]) {
        info.nested_maps += 1;
        m.push(kv(8, Value::Map(vec![])));
    }
    if info.opt(p[5]) {
        m.push(kv(9, Value::Bool(src.bool())));
    }
    if info.opt(p[6]) {
        m.push(kv(10, gen_att_stmt(src, info, packed, x5c)));
    }
    Value::Map(m)
}

/// the four public-key kinds of cosey
pub fn gen_cose_key(src: &mut Src, info: &mut RInfo, kind: usize) -> Value {
    info.nested_maps += 1;
    let xy = |src: &mut Src| if src.chance(3, 4) { Value::Bytes(src.bytes(32)) } else { bytes_cap(src, 32) };
    match kind {
        0 => {
            info.l("cose:P256");
            Value::Map(vec![kv(1, Value::Uint(2)), kv(3, Value::int(-7)), kv(-1, Value::Uint(1)), kv(-2, xy(src)), kv(-3, xy(src))])
        }
        1 => {
            info.l("cose:EcdhEsHkdf256");
            Value::Map(vec![kv(1, Value::Uint(2)), kv(3, Value::int(-25)), kv(-1, Value::Uint(1)), kv(-2, xy(src)), kv(-3, xy(src))])
        }
        2 => {
            info.l("cose:Ed25519");
            Value::Map(vec![kv(1, Value::Uint(1)), kv(3, Value::int(-8)), kv(-1, Value::Uint(6)), kv(-2, xy(src))])
        }
        _ => {
            info.l("cose:Totp");
            Value::Map(vec![kv(1, Value::Uint(4)), kv(3, Value::int(-9))])
        }
    }
}

pub const CP_OPT: usize = 5;

/// authenticatorClientPIN response. words: [p1..p5, values...]
pub fn gen_cp_resp(src: &mut Src, info: &mut RInfo) -> Value {
    let p: Vec<bool> = (0..CP_OPT).map(|_| src.bool()).collect();
    let mut m = vec![];
    if info.opt(p[0]) {
        m.push(kv(1, gen_cose_key(src, info, 1)));
    }
    if info.opt(p[1]) {
        m.push(kv(2, bytes_cap(src, 48)));
    }
    if info.opt(p[2]) {
        m.push(kv(3, Value::Uint(lattice_uint(src, 255))));
    }
    if info.opt(p[3]) {
        m.push(kv(4, Value::Bool(src.bool())));
    }
    if info.opt(p[4]) {
        m.push(kv(5, Value::Uint(lattice_uint(src, 255))));
    }
    Value::Map(m)
}

pub fn cm_opt() -> usize {
    if tpp() {
        12
    } else {
        11
    }
}

/// authenticatorCredentialManagement response.
/// words: [p1..p11(,p12), rp.name, rp.icon-set, u.icon,u.name,u.disp, cose kind(4), values...]
pub fn gen_cm_resp(src: &mut Src, info: &mut RInfo) -> Value {
    let p: Vec<bool> = (0..cm_opt()).map(|_| src.bool()).collect();
    let rp_name = src.bool();
    let rp_icon = src.bool();
    let pu = [src.bool(), src.bool(), src.bool()];
    let cose = src.below(4);
    let mut m = vec![];
    let u32v = |src: &mut Src| Value::Uint(lattice_uint(src, u32::MAX as u64));
    if info.opt(p[0]) {
        m.push(kv(1, u32v(src)));
    }
    if info.opt(p[1]) {
        m.push(kv(2, u32v(src)));
    }
    if info.opt(p[2]) {
        m.push(kv(3, gen_rp_entity(src, info, rp_name, rp_icon)));
    }
    if info.opt(p[3]) {
        m.push(kv(4, gen_bytes32(src)));
    }
    if info.opt(p[4]) {
        m.push(kv(5, u32v(src)));
    }
    if info.opt(p[5]) {
        m.push(kv(6, gen_user_entity(src, info, pu)));
    }
    if info.opt(p[6]) {
        m.push(kv(7, gen_descriptor(src, info)));
    }
    if info.opt(p[7]) {
        m.push(kv(8, gen_cose_key(src, info, cose)));
    }
    if info.opt(p[8]) {
        m.push(kv(9, u32v(src)));
    }
    if info.opt(p[9]) {
        m.push(kv(10, Value::Uint(src.range(1, 3) as u64)));
    }
    if info.opt(p[10]) {
        m.push(kv(11, gen_bytes32(src)));
    }
    if tpp() && info.opt(p[11]) {
        m.push(kv(12, Value::Bool(src.bool())));
    }
    Value::Map(m)
}

pub const LARGE_BLOB_CAP: usize = if LB { 3008 } else { 0 };

/// authenticatorLargeBlobs response. words: [p1, values...]
pub fn gen_lb_resp(src: &mut Src, info: &mut RInfo) -> Value {
    let p = src.bool();
    let mut m = vec![];
    if info.opt(p) {
        m.push(kv(1, bytes_cap(src, lb_cap())));
    }
    Value::Map(m)
}

/// leaf lengths tried, largest first, when looking for the longest value a member accepts
pub const LEAF_CAPS: &[usize] = &[3008, 1024, 676, 256, 255, 128, 77, 64, 48, 32, 16];

/// The response of this kind with every optional member present (deterministic contents).
pub fn full_model(kind: Kind) -> Value {
    let mut words: Vec<u32> = vec![u32::MAX; 40];
    words.extend(std::iter::repeat(0x5555_5555).take(200));
    let mut src = Src::new(&words);
    let mut info = RInfo::default();
    gen_response(kind, &mut src, &mut info)
}

/// Paths of the byte / text string leaves of a model.
pub fn string_leaves(model: &Value) -> Vec<Vec<crate::mutate::Step>> {
    crate::mutate::walk(model).into_iter().filter(|p| matches!(crate::mutate::get(model, p), Some(Value::Bytes(_)) | Some(Value::Text(_)))).collect()
}

/// Replace the leaf by a string of `len` bytes (same kind); false if the path is not a string.
pub fn set_leaf_len(model: &mut Value, path: &[crate::mutate::Step], len: usize) -> bool {
    match crate::mutate::get_mut(model, path) {
        Some(Value::Bytes(b)) => {
            *b = (0..len).map(|i| 0x30 + (i % 64) as u8).collect();
            true
        }
        Some(Value::Text(t)) => {
            *t = (0..len).map(|i| b'a' + (i % 26) as u8).collect();
            true
        }
        _ => false,
    }
}

/// Longest length the public API accepts for this leaf (found by trial through the builder), or
/// None when the member only admits its listed spellings / a fixed length.
pub fn max_leaf_len(kind: Kind, model: &Value, path: &[crate::mutate::Step]) -> Option<usize> {
    let cur = match crate::mutate::get(model, path) {
        Some(Value::Bytes(b)) => b.len(),
        Some(Value::Text(t)) => t.len(),
        _ => return None,
    };
    let mut m = model.clone();
    // a member is freely sizeable only if a different length also builds
    let probe = if cur == 0 { 1 } else { cur - 1 };
    set_leaf_len(&mut m, path, probe);
    if build(kind, &m).is_err() {
        return None;
    }
    for cap in LEAF_CAPS {
        set_leaf_len(&mut m, path, *cap);
        if build(kind, &m).is_ok() {
            // the true limit may lie between this candidate and the next larger one
            let mut hi = *cap;
            loop {
                set_leaf_len(&mut m, path, hi + 1);
                if hi < 4000 && build(kind, &m).is_ok() {
                    hi += 1;
                } else {
                    break;
                }
            }
            return Some(hi);
        }
    }
    Some(cur)
}

pub fn gen_response(kind: Kind, src: &mut Src, info: &mut RInfo) -> Value {
    match kind {
        Kind::GetInfo => gen_getinfo_ex(src, info, true),
        Kind::MakeCredential => gen_mc_resp(src, info),
        Kind::GetAssertion | Kind::GetNextAssertion => gen_ga_resp(src, info),
        Kind::ClientPin => gen_cp_resp(src, info),
        Kind::CredentialManagement => gen_cm_resp(src, info),
        Kind::LargeBlobs => gen_lb_resp(src, info),
        Kind::Reset | Kind::Selection | Kind::Vendor => Value::Map(vec![]),
    }
}

/// number of leading presence words for exhaustive subset enumeration
pub fn presence_bits(kind: Kind) -> usize {
    match kind {
        Kind::GetInfo => gi_top_count(),
        Kind::MakeCredential => MC_OPT,
        Kind::GetAssertion | Kind::GetNextAssertion => GA_OPT,
        Kind::ClientPin => CP_OPT,
        Kind::CredentialManagement => cm_opt(),
        Kind::LargeBlobs => 1,
        _ => 0,
    }
}

// ------------------------------------------------------------------------------------------
// building the real values through the public API

type BR<T> = Result<T, String>;

fn b_bytes<const N: usize>(v: &Value) -> BR<Bytes<N>> {
    let b = v.as_bytes().ok_or("model: expected bytes")?;
    Bytes::from_slice(b).map_err(|_| format!("model: {} bytes exceed capacity {}", b.len(), N))
}

fn b_string<const N: usize>(v: &Value) -> BR<HString<N>> {
    let s = v.as_str().ok_or("model: expected text")?;
    let mut out = HString::new();
    out.push_str(s).map_err(|_| format!("model: text of {} bytes exceeds capacity {}", s.len(), N))?;
    Ok(out)
}

fn b_array32(v: &Value) -> BR<ByteArray<32>> {
    let b = v.as_bytes().ok_or("model: expected bytes")?;
    let a: [u8; 32] = b.try_into().map_err(|_| "model: expected 32 bytes")?;
    Ok(ByteArray::new(a))
}

fn b_u(v: &Value) -> BR<u64> {
    match v {
        Value::Uint(u) => Ok(*u),
        _ => Err("model: expected uint".into()),
    }
}

fn b_bool(v: &Value) -> BR<bool> {
    v.as_bool().ok_or_else(|| "model: expected bool".into())
}

pub fn version_of(s: &str) -> BR<get_info::Version> {
    Ok(match s {
        "FIDO_2_0" => get_info::Version::Fido2_0,
        "FIDO_2_1" => get_info::Version::Fido2_1,
        "FIDO_2_1_PRE" => get_info::Version::Fido2_1Pre,
        "U2F_V2" => get_info::Version::U2fV2,
        _ => return Err(format!("model: unknown version {}", s)),
    })
}

pub fn extension_of(s: &str) -> BR<get_info::Extension> {
    Ok(match s {
        "credProtect" => get_info::Extension::CredProtect,
        "hmac-secret" => get_info::Extension::HmacSecret,
        "largeBlobKey" => get_info::Extension::LargeBlobKey,
        "thirdPartyPayment" => get_info::Extension::ThirdPartyPayment,
        _ => return Err(format!("model: unknown extension {}", s)),
    })
}

pub fn transport_of(s: &str) -> BR<get_info::Transport> {
    Ok(match s {
        "nfc" => get_info::Transport::Nfc,
        "usb" => get_info::Transport::Usb,
        _ => return Err(format!("model: unknown transport {}", s)),
    })
}

pub fn att_format_of(s: &str) -> BR<ctap2::AttestationStatementFormat> {
    Ok(match s {
        "none" => ctap2::AttestationStatementFormat::None,
        "packed" => ctap2::AttestationStatementFormat::Packed,
        _ => return Err(format!("model: unknown attestation format {}", s)),
    })
}

fn b_list<T, const N: usize>(v: &Value, f: impl Fn(&Value) -> BR<T>) -> BR<HVec<T, N>> {
    let a = v.as_array().ok_or("model: expected array")?;
    let mut out = HVec::new();
    for x in a {
        out.push(f(x)?).map_err(|_| format!("model: list exceeds capacity {}", N))?;
    }
    Ok(out)
}

fn text_of(v: &Value) -> BR<&str> {
    v.as_str().ok_or_else(|| "model: expected text".into())
}

pub fn build_ctap_options(v: &Value) -> BR<get_info::CtapOptions> {
    let mut o = get_info::CtapOptions::default();
    let m = v.as_map().ok_or("model: options not a map")?;
    let mut seen_rk = false;
    let mut seen_up = false;
    for (k, x) in m {
        let k = text_of(k)?;
        let b = b_bool(x)?;
        match k {
            "rk" => {
                o.rk = b;
                seen_rk = true
            }
            "up" => {
                o.up = b;
                seen_up = true
            }
            "uv" => o.uv = Some(b),
            "plat" => o.plat = Some(b),
            "credMgmt" => o.cred_mgmt = Some(b),
            "clientPin" => o.client_pin = Some(b),
            "largeBlobs" => o.large_blobs = Some(b),
            "pinUvAuthToken" => o.pin_uv_auth_token = Some(b),
            #[cfg(feature = "gif")]
            "ep" => o.ep = Some(b),
            #[cfg(feature = "gif")]
            "uvAcfg" => o.uv_acfg = Some(b),
            #[cfg(feature = "gif")]
            "alwaysUv" => o.always_uv = Some(b),
            #[cfg(feature = "gif")]
            "authnrCfg" => o.authnr_cfg = Some(b),
            #[cfg(feature = "gif")]
            "bioEnroll" => o.bio_enroll = Some(b),
            #[cfg(feature = "gif")]
            "uvBioEnroll" => o.uv_bio_enroll = Some(b),
            #[cfg(feature = "gif")]
            "setMinPINLength" => o.set_min_pin_length = Some(b),
            #[cfg(feature = "gif")]
            "makeCredUvNotRqd" => o.make_cred_uv_not_rqd = Some(b),
            #[cfg(feature = "gif")]
            "credentialMgmtPreview" => o.credential_mgmt_preview = Some(b),
            #[cfg(feature = "gif")]
            "userVerificationMgmtPreview" => o.user_verification_mgmt_preview = Some(b),
            #[cfg(feature = "gif")]
            "noMcGaPermissionsWithClientPin" => o.no_mc_ga_permissions_with_client_pin = Some(b),
            other => return Err(format!("model: option {} not available in this configuration", other)),
        }
    }
    if !seen_rk || !seen_up {
        return Err("model: options must carry rk and up".into());
    }
    Ok(o)
}

#[cfg(feature = "gif")]
pub fn build_certifications(v: &Value) -> BR<get_info::Certifications> {
    // non-exhaustive without constructor: obtained by decoding an empty map, then assignment
    let mut c: get_info::Certifications =
        cbor_deserialize(&[0xA0]).map_err(|e| format!("cannot obtain empty Certifications: {:?}", e))?;
    for (k, x) in v.as_map().ok_or("model: certifications not a map")? {
        let n = b_u(x)?;
        let n = u8::try_from(n).map_err(|_| "model: certification level exceeds u8")?;
        match text_of(k)? {
            "FIPS-CMVP-2" => c.fips_cmpv2 = Some(n),
            "FIPS-CMVP-3" => c.fips_cmpv3 = Some(n),
            "FIPS-CMVP-2-PHY" => c.fips_cmpv2_phy = Some(n),
            "FIPS-CMVP-3-PHY" => c.fips_cmpv3_phy = Some(n),
            "CC-EAL" => c.cc_eal = Some(n),
            "FIDO" => c.fido = Some(n),
            other => return Err(format!("model: unknown certification {}", other)),
        }
    }
    Ok(c)
}

pub fn build_algorithms(v: &Value) -> BR<FilteredPublicKeyCredentialParameters> {
    let a = v.as_array().ok_or("model: algorithms not an array")?;
    let mut out = ctap_types::heapless::Vec::new();
    for e in a {
        let alg = e.gets("alg").and_then(|x| x.as_int()).ok_or("model: algorithm entry lacks alg")?;
        if e.gets("type").and_then(|x| x.as_str()) != Some("public-key") {
            return Err("model: algorithm entry type must be public-key".into());
        }
        out.push(KnownPublicKeyCredentialParameters { alg: alg as i32 })
            .map_err(|_| "model: more than two algorithms")?;
    }
    Ok(FilteredPublicKeyCredentialParameters(out))
}

fn usize_of(v: &Value) -> BR<usize> {
    usize::try_from(b_u(v)?).map_err(|_| "model: uint exceeds usize".into())
}

pub fn build_getinfo(v: &Value) -> BR<get_info::Response> {
    let versions = b_list::<_, 4>(v.geti(1).ok_or("model: versions missing")?, |x| version_of(text_of(x)?))?;
    let aaguid = b_bytes(v.geti(3).ok_or("model: aaguid missing")?)?;
    let mut r = get_info::ResponseBuilder { versions, aaguid }.build();
    for (k, x) in v.as_map().ok_or("model: not a map")? {
        let k = k.as_int().ok_or("model: GetInfo key not an integer")?;
        match k {
            1 | 3 => {}
            0x02 => r.extensions = Some(b_list::<_, 4>(x, |e| extension_of(text_of(e)?))?),
            0x04 => r.options = Some(build_ctap_options(x)?),
            0x05 => r.max_msg_size = Some(usize_of(x)?),
            0x06 => {
                r.pin_protocols = Some(b_list::<_, 2>(x, |e| {
                    u8::try_from(b_u(e)?).map_err(|_| "model: pin protocol exceeds u8".to_string())
                })?)
            }
            0x07 => r.max_creds_in_list = Some(usize_of(x)?),
            0x08 => r.max_cred_id_length = Some(usize_of(x)?),
            0x09 => r.transports = Some(b_list::<_, 4>(x, |e| transport_of(text_of(e)?))?),
            0x0A => r.algorithms = Some(build_algorithms(x)?),
            0x0B => r.max_serialized_large_blob_array = Some(usize_of(x)?),
            #[cfg(feature = "gif")]
            0x0C => r.force_pin_change = Some(b_bool(x)?),
            #[cfg(feature = "gif")]
            0x0D => r.min_pin_length = Some(usize_of(x)?),
            #[cfg(feature = "gif")]
            0x0E => r.firmware_version = Some(usize_of(x)?),
            #[cfg(feature = "gif")]
            0x0F => r.max_cred_blob_length = Some(usize_of(x)?),
            #[cfg(feature = "gif")]
            0x10 => r.max_rpids_for_set_min_pin_length = Some(usize_of(x)?),
            #[cfg(feature = "gif")]
            0x11 => r.preferred_platform_uv_attempts = Some(usize_of(x)?),
            #[cfg(feature = "gif")]
            0x12 => r.uv_modality = Some(usize_of(x)?),
            #[cfg(feature = "gif")]
            0x13 => r.certifications = Some(build_certifications(x)?),
            #[cfg(feature = "gif")]
            0x14 => r.remaining_discoverable_credentials = Some(usize_of(x)?),
            #[cfg(feature = "gif")]
            0x15 => r.vendor_prototype_config_commands = Some(usize_of(x)?),
            #[cfg(feature = "gif")]
            0x16 => r.attestation_formats = Some(b_list::<_, 2>(x, |e| att_format_of(text_of(e)?))?),
            #[cfg(feature = "gif")]
            0x17 => r.uv_count_since_last_pin_entry = Some(usize_of(x)?),
            #[cfg(feature = "gif")]
            0x18 => r.long_touch_for_reset = Some(b_bool(x)?),
            other => return Err(format!("model: GetInfo member 0x{:02x} not available in this configuration", other)),
        }
    }
    Ok(r)
}

pub fn build_user(v: &Value) -> BR<PublicKeyCredentialUserEntity> {
    let mut u = PublicKeyCredentialUserEntity::from(b_bytes(v.gets("id").ok_or("model: user.id missing")?)?);
    if let Some(x) = v.gets("icon") {
        u.icon = Some(b_string(x)?);
    }
    if let Some(x) = v.gets("name") {
        u.name = Some(b_string(x)?);
    }
    if let Some(x) = v.gets("displayName") {
        u.display_name = Some(b_string(x)?);
    }
    Ok(u)
}

pub fn build_rp(v: &Value) -> BR<PublicKeyCredentialRpEntity> {
    Ok(PublicKeyCredentialRpEntity {
        id: b_string(v.gets("id").ok_or("model: rp.id missing")?)?,
        name: match v.gets("name") {
            Some(x) => Some(b_string(x)?),
            None => None,
        },
        icon: if v.get(&hidden("icon-set")).is_some() { Some(Icon) } else { None },
    })
}

pub fn build_descriptor(v: &Value) -> BR<PublicKeyCredentialDescriptor> {
    Ok(PublicKeyCredentialDescriptor {
        id: b_bytes(v.gets("id").ok_or("model: descriptor.id missing")?)?,
        key_type: b_string(v.gets("type").ok_or("model: descriptor.type missing")?)?,
    })
}

pub fn build_att_stmt(v: &Value) -> BR<ctap2::AttestationStatement> {
    let m = v.as_map().ok_or("model: attStmt not a map")?;
    if m.is_empty() {
        return Ok(ctap2::AttestationStatement::None(ctap2::NoneAttestationStatement {}));
    }
    let alg = v.gets("alg").and_then(|x| x.as_int()).ok_or("model: attStmt.alg missing")?;
    let sig = b_bytes(v.gets("sig").ok_or("model: attStmt.sig missing")?)?;
    let x5c = match v.gets("x5c") {
        None => None,
        Some(x) => Some(b_list::<_, 1>(x, |e| b_bytes(e))?),
    };
    Ok(ctap2::AttestationStatement::Packed(ctap2::PackedAttestationStatement {
        alg: i32::try_from(alg).map_err(|_| "model: alg out of i32")?,
        sig,
        x5c,
    }))
}

pub fn build_mc_resp(v: &Value) -> BR<ctap2::make_credential::Response> {
    use ctap2::make_credential as mc;
    let fmt = att_format_of(text_of(v.geti(1).ok_or("model: fmt missing")?)?)?;
    let auth_data = b_bytes(v.geti(2).ok_or("model: authData missing")?)?;
    let mut r = mc::ResponseBuilder { fmt, auth_data }.build();
    if let Some(x) = v.geti(3) {
        r.att_stmt = Some(build_att_stmt(x)?);
    }
    if let Some(x) = v.geti(4) {
        r.ep_att = Some(b_bool(x)?);
    }
    if let Some(x) = v.geti(5) {
        r.large_blob_key = Some(b_array32(x)?);
    }
    if v.geti(6).is_some() {
        r.unsigned_extension_outputs = Some(mc::UnsignedExtensionOutputs::default());
    }
    Ok(r)
}

pub fn build_ga_resp(v: &Value) -> BR<ctap2::get_assertion::Response> {
    use ctap2::get_assertion as ga;
    let mut r = ga::ResponseBuilder {
        credential: build_descriptor(v.geti(1).ok_or("model: credential missing")?)?,
        auth_data: b_bytes(v.geti(2).ok_or("model: authData missing")?)?,
        signature: b_bytes(v.geti(3).ok_or("model: signature missing")?)?,
    }
    .build();
    if let Some(x) = v.geti(4) {
        r.user = Some(build_user(x)?);
    }
    if let Some(x) = v.geti(5) {
        r.number_of_credentials = Some(u32::try_from(b_u(x)?).map_err(|_| "model: exceeds u32")?);
    }
    if let Some(x) = v.geti(6) {
        r.user_selected = Some(b_bool(x)?);
    }
    if let Some(x) = v.geti(7) {
        r.large_blob_key = Some(b_array32(x)?);
    }
    if v.geti(8).is_some() {
        let u: ga::UnsignedExtensionOutputs =
            cbor_deserialize(&[0xA0]).map_err(|e| format!("cannot obtain UnsignedExtensionOutputs: {:?}", e))?;
        r.unsigned_extension_outputs = Some(u);
    }
    if let Some(x) = v.geti(9) {
        r.ep_att = Some(b_bool(x)?);
    }
    if let Some(x) = v.geti(10) {
        r.att_stmt = Some(build_att_stmt(x)?);
    }
    Ok(r)
}

pub fn build_cose_public(v: &Value) -> BR<cosey::PublicKey> {
    let kty = v.geti(1).and_then(|x| x.as_int()).ok_or("model: kty missing")?;
    let alg = v.geti(3).and_then(|x| x.as_int()).ok_or("model: alg missing")?;
    let crv = v.geti(-1).and_then(|x| x.as_int());
    let x = v.geti(-2);
    let y = v.geti(-3);
    Ok(match (kty, alg, crv) {
        (2, -7, Some(1)) => cosey::PublicKey::P256Key(cosey::P256PublicKey {
            x: b_bytes(x.ok_or("x")?)?,
            y: b_bytes(y.ok_or("y")?)?,
        }),
        (2, -25, Some(1)) => cosey::PublicKey::EcdhEsHkdf256Key(build_cose_ecdh(v)?),
        (1, -8, Some(6)) => cosey::PublicKey::Ed25519Key(cosey::Ed25519PublicKey { x: b_bytes(x.ok_or("x")?)? }),
        (4, -9, None) => cosey::PublicKey::TotpKey(cosey::TotpPublicKey {}),
        _ => return Err("model: unknown COSE key kind".into()),
    })
}

pub fn build_cose_ecdh(v: &Value) -> BR<cosey::EcdhEsHkdf256PublicKey> {
    Ok(cosey::EcdhEsHkdf256PublicKey {
        x: b_bytes(v.geti(-2).ok_or("model: x missing")?)?,
        y: b_bytes(v.geti(-3).ok_or("model: y missing")?)?,
    })
}

pub fn build_cp_resp(v: &Value) -> BR<ctap2::client_pin::Response> {
    let mut r = ctap2::client_pin::Response::default();
    if let Some(x) = v.geti(1) {
        r.key_agreement = Some(build_cose_ecdh(x)?);
    }
    if let Some(x) = v.geti(2) {
        r.pin_token = Some(b_bytes(x)?);
    }
    if let Some(x) = v.geti(3) {
        r.retries = Some(u8::try_from(b_u(x)?).map_err(|_| "model: exceeds u8")?);
    }
    if let Some(x) = v.geti(4) {
        r.power_cycle_state = Some(b_bool(x)?);
    }
    if let Some(x) = v.geti(5) {
        r.uv_retries = Some(u8::try_from(b_u(x)?).map_err(|_| "model: exceeds u8")?);
    }
    Ok(r)
}

pub fn build_cm_resp(v: &Value) -> BR<ctap2::credential_management::Response> {
    use ctap2::credential_management::CredentialProtectionPolicy as P;
    let mut r = ctap2::credential_management::Response::default();
    let u32_of = |x: &Value| -> BR<u32> { u32::try_from(b_u(x)?).map_err(|_| "model: exceeds u32".to_string()) };
    if let Some(x) = v.geti(1) {
        r.existing_resident_credentials_count = Some(u32_of(x)?);
    }
    if let Some(x) = v.geti(2) {
        r.max_possible_remaining_residential_credentials_count = Some(u32_of(x)?);
    }
    if let Some(x) = v.geti(3) {
        r.rp = Some(build_rp(x)?);
    }
    if let Some(x) = v.geti(4) {
        r.rp_id_hash = Some(b_array32(x)?);
    }
    if let Some(x) = v.geti(5) {
        r.total_rps = Some(u32_of(x)?);
    }
    if let Some(x) = v.geti(6) {
        r.user = Some(build_user(x)?);
    }
    if let Some(x) = v.geti(7) {
        r.credential_id = Some(build_descriptor(x)?);
    }
    if let Some(x) = v.geti(8) {
        r.public_key = Some(build_cose_public(x)?);
    }
    if let Some(x) = v.geti(9) {
        r.total_credentials = Some(u32_of(x)?);
    }
    if let Some(x) = v.geti(10) {
        r.cred_protect = Some(match b_u(x)? {
            1 => P::Optional,
            2 => P::OptionalWithCredentialIdList,
            3 => P::Required,
            _ => return Err("model: credProtect must be 1..3".into()),
        });
    }
    if let Some(x) = v.geti(11) {
        r.large_blob_key = Some(b_array32(x)?);
    }
    #[cfg(feature = "tpp")]
    if let Some(x) = v.geti(12) {
        r.third_party_payment = Some(b_bool(x)?);
    }
    #[cfg(not(feature = "tpp"))]
    if v.geti(12).is_some() {
        return Err("model: thirdPartyPayment not available in this configuration".into());
    }
    Ok(r)
}

pub fn build_lb_resp(v: &Value) -> BR<ctap2::large_blobs::Response> {
    let mut r = ctap2::large_blobs::Response::default();
    if let Some(x) = v.geti(1) {
        r.config = Some(b_bytes(x)?);
    }
    Ok(r)
}

pub fn build(kind: Kind, v: &Value) -> BR<ctap2::Response> {
    Ok(match kind {
        Kind::GetInfo => ctap2::Response::GetInfo(build_getinfo(v)?),
        Kind::MakeCredential => ctap2::Response::MakeCredential(build_mc_resp(v)?),
        Kind::GetAssertion => ctap2::Response::GetAssertion(build_ga_resp(v)?),
        Kind::GetNextAssertion => ctap2::Response::GetNextAssertion(build_ga_resp(v)?),
        Kind::ClientPin => ctap2::Response::ClientPin(build_cp_resp(v)?),
        Kind::CredentialManagement => ctap2::Response::CredentialManagement(build_cm_resp(v)?),
        Kind::LargeBlobs => ctap2::Response::LargeBlobs(build_lb_resp(v)?),
        Kind::Reset => ctap2::Response::Reset,
        Kind::Selection => ctap2::Response::Selection,
        Kind::Vendor => ctap2::Response::Vendor,
    })
}

/// Serialise a response into the largest transport buffer.
pub fn serialize_full(r: &ctap2::Response) -> Vec<u8> {
    let mut buf: HVec<u8, 7609> = HVec::new();
    r.serialize(&mut buf);
    buf.to_vec()
}

/// Serialise twice into the same buffer: a transport buffer that is reused without being cleared.
pub fn serialize_twice(r: &ctap2::Response) -> Vec<u8> {
    let mut buf: HVec<u8, 7609> = HVec::new();
    r.serialize(&mut buf);
    r.serialize(&mut buf);
    buf.to_vec()
}

/// Serialise into a buffer that already holds `prior` (non-zero sentinel bytes): the result must
/// not depend on what the buffer held before the call.
pub fn serialize_dirty(r: &ctap2::Response, prior_len: usize) -> Vec<u8> {
    let mut buf: HVec<u8, 7609> = HVec::new();
    for i in 0..prior_len.min(7609) {
        let _ = buf.push(0xC1 ^ (i as u8 & 0x3E));
    }
    r.serialize(&mut buf);
    buf.to_vec()
}

/// The C02 oracle: status byte + exactly the expected map (order-insensitive), or the status
/// byte alone when nothing is set / the kind has no parameters.
pub fn check_encoding(kind: Kind, model: &Value, out: &[u8]) -> Result<(), String> {
    let exp = expected(model);
    if out.is_empty() {
        return Err("status: empty output".into());
    }
    if out[0] != 0x00 {
        return Err(format!("status: first byte is 0x{:02x}, expected 0x00", out[0]));
    }
    let body = &out[1..];
    let empty = !kind.has_params() || exp.as_map().map(|m| m.is_empty()).unwrap_or(false);
    if empty {
        if !body.is_empty() {
            return Err(format!(
                "empty-body: expected the status byte alone, got {} body bytes ({})",
                body.len(),
                crate::util::hex(&body[..body.len().min(16)])
            ));
        }
        return Ok(());
    }
    let parsed = crate::refcbor::parse_strict(body).map_err(|e| format!("body-not-one-item: {}", e.0))?;
    if !matches!(parsed, Value::Map(_)) {
        return Err(format!("body-not-a-map: {}", parsed.type_name()));
    }
    if parsed.contains_null() {
        return Err("null-emitted: the encoded map contains null".into());
    }
    crate::refcbor::eq_unordered(&exp, &parsed).map_err(|e| format!("member-mismatch: {}", e))
}
