//! Small helpers: hex, digests, the choice-sequence source that all generators decode from.

pub fn hex(b: &[u8]) -> String {
    const H: &[u8; 16] = b"0123456789abcdef";
    let mut s = String::with_capacity(b.len() * 2);
    for x in b {
        s.push(H[(x >> 4) as usize] as char);
        s.push(H[(x & 15) as usize] as char);
    }
    s
}

pub fn unhex(s: &str) -> Option<Vec<u8>> {
    let s: Vec<u8> = s.bytes().filter(|c| !c.is_ascii_whitespace()).collect();
    if s.len() % 2 != 0 {
        return None;
    }
    let d = |c: u8| -> Option<u8> {
        match c {
            b'0'..=b'9' => Some(c - b'0'),
            b'a'..=b'f' => Some(c - b'a' + 10),
            b'A'..=b'F' => Some(c - b'A' + 10),
            _ => None,
        }
    };
    let mut out = Vec::with_capacity(s.len() / 2);
    for p in s.chunks(2) {
        out.push(d(p[0])? << 4 | d(p[1])?);
    }
    Some(out)
}

/// FNV-1a 64 — used only to count distinct cases (not a random source).
pub fn digest(parts: &[&[u8]]) -> u64 {
    let mut h: u64 = 0xcbf29ce484222325;
    for p in parts {
        for b in p.iter() {
            h ^= *b as u64;
            h = h.wrapping_mul(0x100000001b3);
        }
        h ^= 0xff;
        h = h.wrapping_mul(0x100000001b3);
    }
    h
}

/// Decoder of a proptest-generated choice sequence. Every random decision of every generator
/// is read from here, so proptest owns all randomness, shrinking the sequence (dropping
/// words, lowering words towards 0) shrinks the case, and a case is replayable from its
/// sequence. Index choices map monotonically (`x*n >> 32`), never with `%`.
/// When the sequence is exhausted, 0 (the simplest choice) is returned.
pub struct Src<'a> {
    data: &'a [u32],
    pos: usize,
}

impl<'a> Src<'a> {
    pub fn new(data: &'a [u32]) -> Self {
        Src { data, pos: 0 }
    }
    pub fn used(&self) -> usize {
        self.pos
    }
    pub fn word(&mut self) -> u32 {
        let v = self.data.get(self.pos).copied().unwrap_or(0);
        self.pos += 1;
        v
    }
    /// uniform-ish in 0..n, monotone in the underlying word; n == 0 returns 0
    pub fn below(&mut self, n: usize) -> usize {
        if n <= 1 {
            // still consume a word so that layouts stay aligned
            self.word();
            return 0;
        }
        ((self.word() as u64 * n as u64) >> 32) as usize
    }
    /// inclusive range
    pub fn range(&mut self, lo: usize, hi: usize) -> usize {
        lo + self.below(hi - lo + 1)
    }
    pub fn bool(&mut self) -> bool {
        self.word() >= 0x8000_0000
    }
    /// true with probability num/den
    pub fn chance(&mut self, num: u32, den: u32) -> bool {
        // monotone: small words => false
        let w = self.word() as u64;
        w * (den as u64) >= ((den - num) as u64) << 32
    }
    pub fn byte(&mut self) -> u8 {
        (self.word() >> 24) as u8
    }
    pub fn u64(&mut self) -> u64 {
        ((self.word() as u64) << 32) | self.word() as u64
    }
    pub fn bytes(&mut self, len: usize) -> Vec<u8> {
        let mut v = Vec::with_capacity(len);
        let mut i = 0;
        while i < len {
            let w = self.word().to_be_bytes();
            for b in w.iter() {
                if i < len {
                    v.push(*b);
                    i += 1;
                }
            }
        }
        v
    }
    pub fn pick<'b, T>(&mut self, items: &'b [T]) -> &'b T {
        let i = self.below(items.len());
        &items[i]
    }
}

/// Scalars used to build text: first entry is the simplest.
const SCALARS: &[char] = &[
    'a', 'Z', '0', ' ', '-', '.', '~', '\u{7f}', '\u{80}', '\u{e9}', '\u{7ff}', '\u{800}',
    '\u{20ac}', '\u{d7ff}', '\u{e000}', '\u{fffd}', '\u{ffff}', '\u{10000}', '\u{1f600}',
    '\u{10ffff}', '\u{0}', '\u{308}',
];

/// Text of exactly `len` bytes (UTF-8), mixing 1/2/3/4-byte scalars; pads with ASCII.
/// One choice word per character; word 0 gives 'a'.
pub fn text_of_len(src: &mut Src, len: usize) -> String {
    let mut s = String::with_capacity(len);
    // one text in ten is the kind of string these members really carry: a URL / data URI / e-mail
    // address / domain name / path, i.e. a scheme-like prefix followed by printable ASCII with
    // punctuation (the other classes only use letters and a few symbols)
    if len >= 1 && src.chance(1, 10) {
        const PREFIXES: [&str; 14] = ["data:", "https://", "http://", "mailto:", "file:///", "javascript:", "//", "www.", "data:image/png;base64,", "data:,", "urn:", "android:apk-key-hash:", "public-key", "."];
        let p = PREFIXES[src.below(PREFIXES.len())];
        for ch in p.chars() {
            if s.len() < len {
                s.push(ch);
            }
        }
        while s.len() < len {
            let c = 0x20 + ((src.word() as u64 * 95) >> 32) as u8;
            s.push(c as char);
        }
        return s;
    }
    let ascii_only = src.chance(1, 3);
    // one text in eight ends in a code point (sequence) that text processing likes to treat
    // specially: joiners, variation selectors, direction marks, BOM, combining marks, the WebAuthn
    // language / direction tag suffix (U+E0001, tag characters, terminator), NUL, space
    let tail: String = if !ascii_only && src.chance(1, 8) { special_tail(src) } else { String::new() };
    let len_body = if tail.len() <= len { len - tail.len() } else { len };
    let tail = if tail.len() <= len { tail } else { String::new() };
    let full_len = len;
    let len = len_body;
    while s.len() < len {
        let left = len - s.len();
        let w = src.word();
        let c = if ascii_only {
            (b'a' + (((w as u64 * 26) >> 32) as u8)) as char
        } else {
            let k = ((w as u64 * (SCALARS.len() as u64 + 8)) >> 32) as usize;
            if k < SCALARS.len() {
                SCALARS[k]
            } else {
                let x = w & 0x1F_FFFF;
                let x = if x >= 0x11_0000 { x & 0xFFFF } else { x };
                let x = if (0xD800..0xE000).contains(&x) { x - 0x800 } else { x };
                char::from_u32(x).unwrap_or('x')
            }
        };
        if c.len_utf8() <= left {
            s.push(c);
        } else {
            s.push((b'a' + (left as u8 % 26)) as char);
        }
    }
    s.push_str(&tail);
    debug_assert_eq!(s.len(), full_len);
    s
}

/// Trailing code point sequences that normalising / sanitising code tends to single out.
pub fn special_tail(src: &mut Src) -> String {
    const SINGLE: [char; 16] = [
        '\u{200d}', '\u{200c}', '\u{fe0f}', '\u{fe0e}', '\u{200e}', '\u{200f}', '\u{feff}', '\u{301}', '\u{e007f}', '\u{e0001}', '\u{0}', ' ', '\u{a0}',
        '\u{2028}', '\u{202e}', '\u{3000}',
    ];
    match src.below(4) {
        0 | 1 => SINGLE[src.below(SINGLE.len())].to_string(),
        2 => {
            // WebAuthn L2 6.4.2: U+E0001, tag characters spelling a language, then a direction mark
            let mut t = String::from('\u{e0001}');
            let n = src.below(4);
            for i in 0..n {
                t.push(char::from_u32(0xE0061 + ((i as u32 * 7 + 4) % 26)).unwrap());
            }
            t.push(*src.pick(&['\u{200e}', '\u{200f}', '\u{e007f}']));
            t
        }
        _ => {
            // an emoji ZWJ sequence cut after the joiner
            let mut t = String::from('\u{1f468}');
            t.push('\u{200d}');
            t
        }
    }
}

/// Pick a length from the boundary lattice {0,1,cap-1,cap} or uniformly in 0..=cap.
pub fn lattice_len(src: &mut Src, cap: usize) -> usize {
    let k = src.below(8);
    match k {
        0 => 0,
        1 => 1.min(cap),
        2 => cap.saturating_sub(1),
        3 => cap,
        // lengths at which the CBOR head of the string changes width, and sizes that protocols use
        4 => (*src.pick(&[23usize, 24, 255, 256, 16, 32, 64, 65535, 65536])).min(cap),
        _ => src.range(0, cap),
    }
}

/// Integer lattice restricted to `max`, else random.
pub fn lattice_uint(src: &mut Src, max: u64) -> u64 {
    const L: [u64; 13] = [
        0,
        1,
        23,
        24,
        255,
        256,
        65535,
        65536,
        0x7fff_ffff,
        0xffff_ffff,
        0x1_0000_0000,
        u64::MAX - 1,
        u64::MAX,
    ];
    // protocol-typical constants (sizes, counts) that code likes to special-case
    const TYPICAL: [u64; 24] = [
        2, 3, 4, 5, 6, 7, 8, 10, 16, 32, 48, 63, 64, 100, 127, 128, 512, 1000, 1024, 1200, 2048, 3072, 4096, 7609,
    ];
    let k = src.below(L.len() + 7);
    if k < L.len() {
        if L[k] <= max {
            L[k]
        } else {
            max
        }
    } else if k == L.len() {
        max.saturating_sub(1)
    } else if k <= L.len() + 2 {
        let t = *src.pick(&TYPICAL);
        t.min(max)
    } else if k == L.len() + 3 {
        // small values exhaustively reachable
        (src.below(4200) as u64).min(max)
    } else {
        let r = src.u64();
        if max == u64::MAX {
            r
        } else {
            // monotone map into 0..=max
            ((r as u128 * (max as u128 + 1)) >> 64) as u64
        }
    }
}
