//! Deterministic enumerations of the boundary cases of the two pieces of hand-written `unsafe`
//! (C13: floor_char_boundary / unwrap_unchecked; C19: from_utf8_unchecked and the
//! &[u8; N] -> &ByteArray<N> pointer cast), meant to be executed under Miri:
//!
//!   cargo +nightly miri run --bin ctv-miri [--features arb] -- c13|c19 [stride]
//!
//! Uses the same generators and oracles as the proptest runs, fed with explicit choice words
//! (no proptest, no file I/O), so Miri interprets only harness generator code + the crate.
//! Exit code 0 = all cases passed, 1 = an oracle failed (the case is printed).

use ctv::run::{idx, run_gen, Obs};

fn run_case(gen: &ctv::run::Gen, words: &[u32]) -> bool {
    let mut obs = Obs::new(false);
    let (r, _) = run_gen(gen, words, &mut obs);
    match r {
        Ok(()) => true,
        Err(f) => {
            println!("VIOLATION sig={} gen={} words={:?}\n  {}", f.sig, gen.name, words, f.msg);
            false
        }
    }
}

fn c13(stride: u32) -> (u64, bool) {
    use ctv::props::c13::{G_ICON, G_ILL, G_STRADDLE};
    let mut n = 0u64;
    let mut ok = true;
    // every alignment x a stride sample of the 4^4 width patterns of the four characters
    // straddling the cut (the window the unsafe code scans), full when stride == 1
    for pad in 0..9usize {
        let mut p = 0u32;
        while p < 256 {
            // positions 3..6 of the eight straddling characters cover offsets 59..67
            let pattern = (p << 6) | 0b01_01_01;
            let words = vec![idx(pad, 9), pattern, p.wrapping_mul(40503), idx((p as usize * 7) % 240, 240)];
            ok &= run_case(&G_STRADDLE, &words);
            n += 1;
            p += stride;
        }
    }
    // icon lengths around the capacity
    for len in [0u32, 1, 126, 127, 128, 129, 130, 200, 300] {
        ok &= run_case(&G_ICON, &[len, 0, 0x8000_0000, 0x4000_0000, 0xC000_0000]);
        n += 1;
    }
    // a few ill-formed texts (deterministic word ladders)
    for i in 0..24u32 {
        let w: Vec<u32> = (0..40u32).map(|j| i.wrapping_mul(0x9E37_79B9).wrapping_add(j.wrapping_mul(0x85EB_CA6B)).rotate_left(j)).collect();
        ok &= run_case(&G_ILL, &w);
        n += 1;
    }
    (n, ok)
}

#[cfg(feature = "arb")]
fn c19(stride: u32) -> (u64, bool) {
    let gens = ctv::props::c19::gens();
    let repeat = gens.iter().find(|g| g.name == "c19_repeat").unwrap();
    let mix = gens.iter().find(|g| g.name == "c19_mix").unwrap();
    let layout = gens.iter().find(|g| g.name == "c19_layout").unwrap();
    let mut n = 0u64;
    let mut ok = true;
    for entry in 0..3usize {
        let mut b = 0u32;
        while b < 256 {
            for len in [0u32, 1, 9, 33, 65, 130, 300, 700] {
                ok &= run_case(repeat, &[idx(entry, 3), b, len]);
                n += 1;
            }
            b += stride.max(1) * 5 + 1;
        }
        // layout-aware inputs (clamping boundaries, cut characters, short fixed-size members)
        if entry < 2 {
            for kind in 0..5usize {
                for i in 0..(16 / stride.max(1)).max(2) {
                    let w: Vec<u32> = vec![idx(entry, 2), idx(kind, 5)]
                        .into_iter()
                        .chain((0..120u32).map(|j| i.wrapping_mul(0x9E37_79B9).wrapping_add(777).wrapping_add(j.wrapping_mul(0x85EB_CA6B)).rotate_left(j % 29)))
                        .collect();
                    ok &= run_case(layout, &w);
                    n += 1;
                }
            }
        }
        // deterministic mixes of well- and ill-formed UTF-8
        for i in 0..(24 / stride.max(1)).max(2) {
            let w: Vec<u32> = std::iter::once(idx(entry, 3))
                .chain(std::iter::once(idx((i as usize) % 5, 5)))
                .chain((0..300u32).map(|j| i.wrapping_mul(0x9E37_79B9).wrapping_add(12345).wrapping_add(j.wrapping_mul(0x85EB_CA6B)).rotate_left(j % 31)))
                .collect();
            ok &= run_case(mix, &w);
            n += 1;
        }
    }
    (n, ok)
}

#[cfg(not(feature = "arb"))]
fn c19(_stride: u32) -> (u64, bool) {
    println!("c19 needs --features arb");
    (0, false)
}

fn main() {
    let args: Vec<String> = std::env::args().collect();
    let which = args.get(1).map(|s| s.as_str()).unwrap_or("c13");
    let stride: u32 = args.get(2).and_then(|s| s.parse().ok()).unwrap_or(1);
    let (n, ok) = match which {
        "c13" => c13(stride),
        "c19" => c19(stride),
        _ => {
            println!("usage: ctv-miri c13|c19 [stride]");
            std::process::exit(2);
        }
    };
    println!("MIRI-CASES {} {} {}", which, n, if ok { "ok" } else { "FAILED" });
    std::process::exit(if ok && n > 0 { 0 } else { 1 });
}
