//! Request models: generators that build CTAP2 request parameter maps as reference-CBOR
//! `Value`s from the specification's key tables, and the oracle that compares a decoded
//! `ctap_types::ctap2::Request` with such a `Value` member by member.
//!
//! The key tables here are transcribed from the CTAP 2.0/2.1/2.2 specification, not from the
//! crate's source.

use crate::refcbor::Value;
use crate::util::{lattice_len, lattice_uint, text_of_len, Src};
use ctap_types::ctap2;
use ctap_types::ctap2::client_pin::PinV1Subcommand;
use ctap_types::ctap2::credential_management::Subcommand;
use ctap_types::webauthn;

pub const CMD_MC: u8 = 0x01;
pub const CMD_GA: u8 = 0x02;
pub const CMD_CP: u8 = 0x06;
pub const CMD_CM: u8 = 0x0A;
pub const CMD_CM_PREVIEW: u8 = 0x41;
pub const CMD_LB: u8 = 0x0C;
pub const PARAM_CMDS: [u8; 6] = [CMD_MC, CMD_GA, CMD_CP, CMD_CM, CMD_CM_PREVIEW, CMD_LB];

/// Bookkeeping about a generated message, used for labels and the non-triviality rule.
#[derive(Default, Clone, Debug)]
pub struct Info {
    pub present: u32,
    pub absent: u32,
    pub boundary: u32,
    pub lossy: u32,
    pub labels: Vec<String>,
    /// restrict generation to the lossless sub-domain (names <= 64, icon <= 128, no rp icon)
    pub lossless: bool,
}

impl Info {
    fn opt(&mut self, p: bool) -> bool {
        if p {
            self.present += 1;
        } else {
            self.absent += 1;
        }
        p
    }
    fn b(&mut self, l: &str) {
        self.boundary += 1;
        self.labels.push(l.to_string());
    }
    pub fn nontrivial(&self) -> bool {
        (self.present > 0 && self.absent > 0) || self.boundary > 0
    }
}

fn kv(k: i64, v: Value) -> (Value, Value) {
    (Value::int(k), v)
}
fn ks(k: &str, v: Value) -> (Value, Value) {
    (Value::text(k), v)
}

/// byte string whose length comes from the {0,1,cap-1,cap} lattice or is random
fn bytes_cap(src: &mut Src, info: &mut Info, what: &str, cap: usize) -> Value {
    let n = lattice_len(src, cap);
    if n == cap {
        info.b(&format!("{}=cap", what));
    } else if n + 1 == cap {
        info.b(&format!("{}=cap-1", what));
    } else if n == 0 {
        info.b(&format!("{}=empty", what));
    }
    Value::Bytes(src.bytes(n))
}

fn text_cap(src: &mut Src, info: &mut Info, what: &str, cap: usize) -> Value {
    let n = lattice_len(src, cap);
    if n == cap {
        info.b(&format!("{}=cap", what));
    } else if n + 1 == cap {
        info.b(&format!("{}=cap-1", what));
    } else if n == 0 {
        info.b(&format!("{}=empty", what));
    }
    Value::Text(text_of_len(src, n).into_bytes())
}

/// name-like text: may exceed 64 bytes (documented lossy truncation)
fn name_text(src: &mut Src, info: &mut Info, what: &str) -> Value {
    const L: [usize; 9] = [0, 1, 63, 64, 65, 66, 67, 100, 300];
    let k = src.below(L.len() + 4);
    let n = if k < L.len() { L[k] } else { src.range(0, 300) };
    let n = if info.lossless && n > 64 { n % 65 } else { n };
    if n > 64 {
        info.lossy += 1;
        info.b(&format!("{}>64", what));
    } else if n >= 63 {
        info.b(&format!("{}=63..64", what));
    }
    Value::Text(text_of_len(src, n).into_bytes())
}

fn icon_text(src: &mut Src, info: &mut Info, what: &str) -> Value {
    const L: [usize; 7] = [0, 1, 127, 128, 129, 130, 300];
    let k = src.below(L.len() + 3);
    let n = if k < L.len() { L[k] } else { src.range(0, 300) };
    let n = if info.lossless && n > 128 { n % 129 } else { n };
    if n > 128 {
        info.lossy += 1;
        info.b(&format!("{}>128", what));
    } else if n >= 127 {
        info.b(&format!("{}=127..128", what));
    }
    Value::Text(text_of_len(src, n).into_bytes())
}

fn uint_max(src: &mut Src, info: &mut Info, what: &str, max: u64) -> Value {
    let v = lattice_uint(src, max);
    if v == max {
        info.b(&format!("{}=max", what));
    } else if v >= 24 {
        info.b(&format!("{}>=24", what));
    }
    Value::Uint(v)
}

pub fn gen_rp(src: &mut Src, info: &mut Info, p_name: bool, icon_kind: usize) -> Value {
    let mut m = vec![ks("id", text_cap(src, info, "rp.id", 256))];
    if info.opt(p_name) {
        m.push(ks("name", name_text(src, info, "rp.name")));
    }
    match if info.lossless { 0 } else { icon_kind } {
        1 => {
            info.opt(true);
            info.lossy += 1;
            m.push(ks("icon", icon_text(src, info, "rp.icon")));
        }
        2 => {
            info.opt(true);
            info.lossy += 1;
            m.push(ks("url", icon_text(src, info, "rp.url")));
        }
        _ => {
            info.opt(false);
        }
    }
    Value::Map(m)
}

pub fn gen_user(src: &mut Src, info: &mut Info, p_icon: bool, p_name: bool, p_disp: bool) -> Value {
    let mut m = vec![ks("id", bytes_cap(src, info, "user.id", 64))];
    if info.opt(p_icon) {
        m.push(ks("icon", icon_text(src, info, "user.icon")));
    }
    if info.opt(p_name) {
        m.push(ks("name", name_text(src, info, "user.name")));
    }
    if info.opt(p_disp) {
        m.push(ks("displayName", name_text(src, info, "user.displayName")));
    }
    Value::Map(m)
}

pub fn gen_descriptor(src: &mut Src, info: &mut Info) -> Value {
    const L: [usize; 6] = [0, 1, 16, 64, 255, 256];
    let k = src.below(L.len() + 3);
    let n = if k < L.len() { L[k] } else { src.range(0, 300) };
    let id = Value::Bytes(src.bytes(n));
    let ty = match src.below(6) {
        0..=2 => Value::text("public-key"),
        3 => Value::text(""),
        4 => text_cap(src, info, "desc.type", 32),
        _ => {
            let n = src.range(0, 100);
            Value::Text(text_of_len(src, n).into_bytes())
        }
    };
    Value::Map(vec![ks("id", id), ks("type", ty)])
}

pub const ALG_LATTICE: [i64; 14] = [
    -7,
    -8,
    -257,
    -35,
    -9,
    -6,
    0,
    7,
    8,
    -24,
    -25,
    -256,
    i32::MIN as i64,
    i32::MAX as i64,
];

pub fn gen_param(src: &mut Src, info: &mut Info) -> Value {
    let k = src.below(ALG_LATTICE.len() + 14);
    let alg = if k < ALG_LATTICE.len() {
        ALG_LATTICE[k]
    } else if k < ALG_LATTICE.len() + 10 {
        // boost the two known algorithms
        if src.bool() {
            -7
        } else {
            -8
        }
    } else {
        (src.word() as i32) as i64
    };
    if alg == i32::MIN as i64 || alg == i32::MAX as i64 {
        info.b("alg=i32-extreme");
    }
    let ty = match src.below(8) {
        0..=4 => Value::text("public-key"),
        5 => Value::text("public-keY"),
        6 => text_cap(src, info, "param.type", 32),
        _ => Value::text(""),
    };
    Value::Map(vec![ks("alg", Value::int(alg)), ks("type", ty)])
}

pub fn gen_params_list(src: &mut Src, info: &mut Info, max: usize) -> Value {
    let n = match src.below(6) {
        0 => 0,
        1 => 1,
        2 => 2,
        3 => 3,
        _ => src.range(0, max),
    };
    Value::Array((0..n).map(|_| gen_param(src, info)).collect())
}

pub const FORMATS: [&str; 7] = ["packed", "none", "tpm", "android-key", "fido-u2f", "apple", "Packed"];

pub fn gen_formats_list(src: &mut Src, _info: &mut Info, max: usize) -> Value {
    let n = src.range(0, max);
    Value::Array(
        (0..n)
            .map(|_| {
                let k = src.below(FORMATS.len() + 6);
                if k < FORMATS.len() {
                    Value::text(FORMATS[k])
                } else if k < FORMATS.len() + 4 {
                    Value::text(if src.bool() { "packed" } else { "none" })
                } else {
                    let n = src.range(0, 40);
                    Value::Text(text_of_len(src, n).into_bytes())
                }
            })
            .collect(),
    )
}

pub fn gen_options(src: &mut Src, info: &mut Info, p: [bool; 3]) -> Value {
    let mut m = vec![];
    for (i, k) in ["rk", "up", "uv"].iter().enumerate() {
        if info.opt(p[i]) {
            m.push(ks(k, Value::Bool(src.bool())));
        }
    }
    Value::Map(m)
}

pub fn gen_mc_ext(src: &mut Src, info: &mut Info, p: [bool; 4]) -> Value {
    let mut m = vec![];
    if info.opt(p[0]) {
        m.push(ks("credProtect", uint_max(src, info, "credProtect", 255)));
    }
    if info.opt(p[1]) {
        m.push(ks("hmac-secret", Value::Bool(src.bool())));
    }
    if info.opt(p[2]) {
        m.push(ks("largeBlobKey", Value::Bool(src.bool())));
    }
    if crate::respmodel::tpp() && info.opt(p[3]) {
        m.push(ks("thirdPartyPayment", Value::Bool(src.bool())));
    }
    Value::Map(m)
}

/// COSE_Key for ECDH-ES+HKDF-256 on P-256 as sent by platforms: {1:2, 3:-25, -1:1, -2:x, -3:y}
pub fn gen_cose_ecdh(src: &mut Src, info: &mut Info, p_alg: bool) -> Value {
    let mut m = vec![kv(1, Value::Uint(2))];
    if info.opt(p_alg || info.lossless) {
        m.push(kv(3, Value::int(-25)));
    }
    m.push(kv(-1, Value::Uint(1)));
    // coordinates: capacity 32; platforms send exactly 32
    let x = if src.chance(3, 4) { Value::Bytes(src.bytes(32)) } else { bytes_cap(src, info, "cose.x", 32) };
    let y = if src.chance(3, 4) { Value::Bytes(src.bytes(32)) } else { bytes_cap(src, info, "cose.y", 32) };
    m.push(kv(-2, x));
    m.push(kv(-3, y));
    Value::Map(m)
}

pub fn gen_hmac_input(src: &mut Src, info: &mut Info, p_alg: bool, p_proto: bool) -> Value {
    let mut m = vec![kv(1, gen_cose_ecdh(src, info, p_alg))];
    let salt = match src.below(5) {
        0 => Value::Bytes(src.bytes(32)),
        1 => Value::Bytes(src.bytes(64)),
        _ => bytes_cap(src, info, "saltEnc", 80),
    };
    m.push(kv(2, salt));
    let auth = match src.below(4) {
        0 => Value::Bytes(src.bytes(16)),
        _ => bytes_cap(src, info, "saltAuth", 32),
    };
    m.push(kv(3, auth));
    if info.opt(p_proto) {
        m.push(kv(4, uint_max(src, info, "hmac.pinProtocol", u32::MAX as u64)));
    }
    Value::Map(m)
}

pub fn gen_ga_ext(src: &mut Src, info: &mut Info, p: [bool; 3], p_alg: bool, p_proto: bool) -> Value {
    let mut m = vec![];
    if info.opt(p[0]) {
        m.push(ks("hmac-secret", gen_hmac_input(src, info, p_alg, p_proto)));
    }
    if info.opt(p[1]) {
        m.push(ks("largeBlobKey", Value::Bool(src.bool())));
    }
    if crate::respmodel::tpp() && info.opt(p[2]) {
        m.push(ks("thirdPartyPayment", Value::Bool(src.bool())));
    }
    Value::Map(m)
}

fn hash_bytes(src: &mut Src, info: &mut Info) -> Value {
    match src.below(8) {
        0 => {
            info.b("cdh=empty");
            Value::Bytes(vec![])
        }
        1 => Value::Bytes(src.bytes(31)),
        2 => Value::Bytes(src.bytes(33)),
        3 => {
            let n = src.range(0, 64);
            Value::Bytes(src.bytes(n))
        }
        _ => Value::Bytes(src.bytes(32)),
    }
}

fn pin_auth_bytes(src: &mut Src, info: &mut Info) -> Value {
    match src.below(6) {
        0 => {
            info.b("pinAuth=empty");
            Value::Bytes(vec![])
        }
        1 => Value::Bytes(src.bytes(16)),
        2 => Value::Bytes(src.bytes(32)),
        _ => {
            let n = src.range(0, 64);
            Value::Bytes(src.bytes(n))
        }
    }
}

pub const MC_TOP: usize = 7; // keys 5,6,7,8,9,10,11
pub const MC_NESTED: usize = 12;

/// authenticatorMakeCredential (0x01) parameters
/// words: [p5,p6,p7,p8,p9,p10,p11, rp.name, rp.icon-kind(3), u.icon,u.name,u.disp,
///         rk,up,uv, credProtect,hmac,lbk,tpp, values...]
pub fn gen_mc(src: &mut Src, info: &mut Info) -> Value {
    let top: Vec<bool> = (0..MC_TOP).map(|_| src.bool()).collect();
    let p_rp_name = src.bool();
    let rp_icon = src.below(3);
    let pu = [src.bool(), src.bool(), src.bool()];
    let po = [src.bool(), src.bool(), src.bool()];
    let pe = [src.bool(), src.bool(), src.bool(), src.bool()];
    let mut m = vec![
        kv(1, hash_bytes(src, info)),
        kv(2, gen_rp(src, info, p_rp_name, rp_icon)),
        kv(3, gen_user(src, info, pu[0], pu[1], pu[2])),
        kv(4, gen_params_list(src, info, 20)),
    ];
    if info.opt(top[0]) {
        let n = match src.below(5) {
            0 => 0,
            1 => 1,
            2 => {
                info.b("excludeList=cap");
                16
            }
            3 => 15,
            _ => src.range(0, 16),
        };
        m.push(kv(5, Value::Array((0..n).map(|_| gen_descriptor(src, info)).collect())));
    }
    if info.opt(top[1]) {
        m.push(kv(6, gen_mc_ext(src, info, pe)));
    }
    if info.opt(top[2]) {
        m.push(kv(7, gen_options(src, info, po)));
    }
    if info.opt(top[3]) {
        m.push(kv(8, pin_auth_bytes(src, info)));
    }
    if info.opt(top[4]) {
        m.push(kv(9, uint_max(src, info, "mc.pinProtocol", u32::MAX as u64)));
    }
    if info.opt(top[5]) {
        m.push(kv(10, uint_max(src, info, "mc.enterpriseAttestation", u32::MAX as u64)));
    }
    if info.opt(top[6]) {
        m.push(kv(11, gen_formats_list(src, info, 6)));
    }
    Value::Map(m)
}

pub const GA_TOP: usize = 7; // keys 3,4,5,6,7,8,9
pub const GA_NESTED: usize = 8;

/// authenticatorGetAssertion (0x02)
/// words: [p3..p9, rk,up,uv, hmac,lbk,tpp, cose.alg, hmac.proto, values...]
pub fn gen_ga(src: &mut Src, info: &mut Info) -> Value {
    let top: Vec<bool> = (0..GA_TOP).map(|_| src.bool()).collect();
    let po = [src.bool(), src.bool(), src.bool()];
    let pe = [src.bool(), src.bool(), src.bool()];
    let p_alg = src.bool();
    let p_proto = src.bool();
    let rp_id = match src.below(4) {
        0 => text_cap(src, info, "ga.rpId", 256),
        1 => {
            let n = src.range(0, 600);
            Value::Text(text_of_len(src, n).into_bytes())
        }
        _ => Value::text("example.com"),
    };
    let mut m = vec![kv(1, rp_id), kv(2, hash_bytes(src, info))];
    if info.opt(top[0]) {
        let n = match src.below(5) {
            0 => 0,
            1 => 1,
            2 => {
                info.b("allowList=cap");
                10
            }
            3 => 9,
            _ => src.range(0, 10),
        };
        m.push(kv(3, Value::Array((0..n).map(|_| gen_descriptor(src, info)).collect())));
    }
    if info.opt(top[1]) {
        m.push(kv(4, gen_ga_ext(src, info, pe, p_alg, p_proto)));
    }
    if info.opt(top[2]) {
        m.push(kv(5, gen_options(src, info, po)));
    }
    if info.opt(top[3]) {
        m.push(kv(6, pin_auth_bytes(src, info)));
    }
    if info.opt(top[4]) {
        m.push(kv(7, uint_max(src, info, "ga.pinProtocol", u32::MAX as u64)));
    }
    if info.opt(top[5]) {
        m.push(kv(8, uint_max(src, info, "ga.enterpriseAttestation", u32::MAX as u64)));
    }
    if info.opt(top[6]) {
        m.push(kv(9, gen_formats_list(src, info, 6)));
    }
    Value::Map(m)
}

pub const PIN_SUBCOMMANDS: [u64; 8] = [1, 2, 3, 4, 5, 6, 7, 9];
pub const CP_TOP: usize = 6; // keys 3,4,5,6,9,10
pub const CP_NESTED: usize = 1;

/// authenticatorClientPIN (0x06). words: [p3,p4,p5,p6,p9,p10, cose.alg, values...]
pub fn gen_cp(src: &mut Src, info: &mut Info) -> Value {
    let top: Vec<bool> = (0..CP_TOP).map(|_| src.bool()).collect();
    let p_alg = src.bool();
    let mut m = vec![
        kv(1, uint_max(src, info, "cp.pinProtocol", 255)),
        kv(2, Value::Uint(*src.pick(&PIN_SUBCOMMANDS))),
    ];
    if info.opt(top[0]) {
        m.push(kv(3, gen_cose_ecdh(src, info, p_alg)));
    }
    if info.opt(top[1]) {
        m.push(kv(4, pin_auth_bytes(src, info)));
    }
    if info.opt(top[2]) {
        let n = *src.pick(&[64usize, 0, 1, 63, 65, 256]);
        m.push(kv(5, Value::Bytes(src.bytes(n))));
    }
    if info.opt(top[3]) {
        let n = *src.pick(&[16usize, 0, 1, 32, 64]);
        m.push(kv(6, Value::Bytes(src.bytes(n))));
    }
    if info.opt(top[4]) {
        m.push(kv(9, uint_max(src, info, "cp.permissions", 255)));
    }
    if info.opt(top[5]) {
        let v = match src.below(3) {
            0 => Value::text("example.com"),
            1 => text_cap(src, info, "cp.rpId", 256),
            _ => {
                let n = src.range(0, 400);
                Value::Text(text_of_len(src, n).into_bytes())
            }
        };
        m.push(kv(10, v));
    }
    Value::Map(m)
}

pub const CM_TOP: usize = 3; // keys 2,3,4
pub const CM_NESTED: usize = 6; // sub params 1,2,3 ; user icon,name,disp

/// authenticatorCredentialManagement (0x0A / 0x41)
/// words: [p2,p3,p4, sp1,sp2,sp3, u.icon,u.name,u.disp, values...]
pub fn gen_cm(src: &mut Src, info: &mut Info) -> Value {
    let top: Vec<bool> = (0..CM_TOP).map(|_| src.bool()).collect();
    let sp = [src.bool(), src.bool(), src.bool()];
    let pu = [src.bool(), src.bool(), src.bool()];
    let mut m = vec![kv(1, Value::Uint(src.range(1, 7) as u64))];
    if info.opt(top[0]) {
        let mut p = vec![];
        if info.opt(sp[0]) {
            p.push(kv(1, Value::Bytes(src.bytes(32))));
        }
        if info.opt(sp[1]) {
            p.push(kv(2, gen_descriptor(src, info)));
        }
        if info.opt(sp[2]) {
            p.push(kv(3, gen_user(src, info, pu[0], pu[1], pu[2])));
        }
        m.push(kv(2, Value::Map(p)));
    }
    if info.opt(top[1]) {
        m.push(kv(3, uint_max(src, info, "cm.pinProtocol", 255)));
    }
    if info.opt(top[2]) {
        m.push(kv(4, pin_auth_bytes(src, info)));
    }
    Value::Map(m)
}

pub const LB_TOP: usize = 5; // keys 1,2,4,5,6
pub const LB_NESTED: usize = 0;

/// authenticatorLargeBlobs (0x0C). words: [p1,p2,p4,p5,p6, values...]
pub fn gen_lb(src: &mut Src, info: &mut Info) -> Value {
    let top: Vec<bool> = (0..LB_TOP).map(|_| src.bool()).collect();
    let mut m = vec![];
    if info.opt(top[0]) {
        m.push(kv(1, uint_max(src, info, "lb.get", u32::MAX as u64)));
    }
    if info.opt(top[1]) {
        let n = *src.pick(&[0usize, 1, 17, 255, 256, 960, 1024, 3008, 3009, 4000]);
        if n >= 3008 {
            info.b("lb.set>=3008");
        }
        m.push(kv(2, Value::Bytes(src.bytes(n))));
    }
    m.push(kv(3, uint_max(src, info, "lb.offset", u32::MAX as u64)));
    if info.opt(top[2]) {
        m.push(kv(4, uint_max(src, info, "lb.length", u32::MAX as u64)));
    }
    if info.opt(top[3]) {
        m.push(kv(5, pin_auth_bytes(src, info)));
    }
    if info.opt(top[4]) {
        m.push(kv(6, uint_max(src, info, "lb.pinUvAuthProtocol", u32::MAX as u64)));
    }
    Value::Map(m)
}

pub fn gen_for(cmd: u8, src: &mut Src, info: &mut Info) -> Value {
    match cmd {
        CMD_MC => gen_mc(src, info),
        CMD_GA => gen_ga(src, info),
        CMD_CP => gen_cp(src, info),
        CMD_CM | CMD_CM_PREVIEW => gen_cm(src, info),
        CMD_LB => gen_lb(src, info),
        _ => Value::Map(vec![]),
    }
}

pub fn top_bits(cmd: u8) -> usize {
    match cmd {
        CMD_MC => MC_TOP,
        CMD_GA => GA_TOP,
        CMD_CP => CP_TOP,
        CMD_CM | CMD_CM_PREVIEW => CM_TOP,
        CMD_LB => LB_TOP,
        _ => 0,
    }
}

pub fn nested_bits(cmd: u8) -> usize {
    match cmd {
        CMD_MC => MC_NESTED,
        CMD_GA => GA_NESTED,
        CMD_CP => CP_NESTED,
        CMD_CM | CMD_CM_PREVIEW => CM_NESTED,
        CMD_LB => LB_NESTED,
        _ => 0,
    }
}

pub fn cmd_name(cmd: u8) -> &'static str {
    match cmd {
        CMD_MC => "MakeCredential",
        CMD_GA => "GetAssertion",
        CMD_CP => "ClientPin",
        CMD_CM => "CredentialManagement",
        CMD_CM_PREVIEW => "CredentialManagement(0x41)",
        CMD_LB => "LargeBlobs",
        _ => "other",
    }
}

/// message bytes = command byte || canonical CBOR of the parameter map
pub fn message(cmd: u8, params: &Value) -> Vec<u8> {
    let mut out = vec![cmd];
    out.extend_from_slice(&crate::refcbor::encode_canonical(params));
    out
}

// ---------------------------------------------------------------------------------------------
// Oracle: expected decoded value, derived from the model `Value` and the specification.

/// Independent statement of the documented truncation: the longest prefix of at most `max`
/// bytes that ends on a character boundary.
pub fn spec_truncate(s: &str, max: usize) -> &str {
    if s.len() <= max {
        return s;
    }
    let mut end = 0;
    for (i, c) in s.char_indices() {
        let e = i + c.len_utf8();
        if e <= max {
            end = e;
        } else {
            break;
        }
    }
    &s[..end]
}

type R = Result<(), String>;

fn need<'a>(m: &'a Value, k: i64, what: &str) -> Result<&'a Value, String> {
    m.geti(k).ok_or_else(|| format!("model lacks required {}", what))
}

fn exp_bytes(what: &str, model: Option<&Value>, got: Option<&[u8]>) -> R {
    let want = match model {
        None => None,
        Some(v) => Some(v.as_bytes().ok_or_else(|| format!("model {} is not bytes", what))?),
    };
    if want != got {
        return Err(format!(
            "{}: expected {:?} got {:?}",
            what,
            want.map(crate::util::hex),
            got.map(crate::util::hex)
        ));
    }
    Ok(())
}

fn exp_uint(what: &str, model: Option<&Value>, got: Option<u64>) -> R {
    let want = match model {
        None => None,
        Some(Value::Uint(u)) => Some(*u),
        Some(_) => return Err(format!("model {} is not uint", what)),
    };
    if want != got {
        return Err(format!("{}: expected {:?} got {:?}", what, want, got));
    }
    Ok(())
}

fn exp_bool(what: &str, model: Option<&Value>, got: Option<bool>) -> R {
    let want = match model {
        None => None,
        Some(Value::Bool(b)) => Some(*b),
        Some(_) => return Err(format!("model {} is not bool", what)),
    };
    if want != got {
        return Err(format!("{}: expected {:?} got {:?}", what, want, got));
    }
    Ok(())
}

fn exp_str(what: &str, want: Option<&str>, got: Option<&str>) -> R {
    if want != got {
        return Err(format!("{}: expected {:?} got {:?}", what, want, got));
    }
    Ok(())
}

fn model_str<'a>(what: &str, v: Option<&'a Value>) -> Result<Option<&'a str>, String> {
    match v {
        None => Ok(None),
        Some(v) => v.as_str().map(Some).ok_or_else(|| format!("model {} is not text", what)),
    }
}

pub fn check_rp(what: &str, model: &Value, got: &webauthn::PublicKeyCredentialRpEntity) -> R {
    let id = model_str("rp.id", model.gets("id"))?.ok_or("model lacks rp.id")?;
    exp_str(&format!("{}.id", what), Some(id), Some(got.id.as_str()))?;
    let name = model_str("rp.name", model.gets("name"))?.map(|s| spec_truncate(s, 64));
    exp_str(&format!("{}.name", what), name, got.name.as_deref())?;
    let has_icon = model.gets("icon").is_some() || model.gets("url").is_some();
    if has_icon != got.icon.is_some() {
        return Err(format!(
            "{}.icon: expected present={} got present={}",
            what,
            has_icon,
            got.icon.is_some()
        ));
    }
    Ok(())
}

pub fn check_user(what: &str, model: &Value, got: &webauthn::PublicKeyCredentialUserEntity) -> R {
    exp_bytes(&format!("{}.id", what), model.gets("id"), Some(got.id.as_slice()))?;
    let icon = model_str("user.icon", model.gets("icon"))?.filter(|s| s.len() <= 128);
    exp_str(&format!("{}.icon", what), icon, got.icon.as_deref())?;
    let name = model_str("user.name", model.gets("name"))?.map(|s| spec_truncate(s, 64));
    exp_str(&format!("{}.name", what), name, got.name.as_deref())?;
    let disp = model_str("user.displayName", model.gets("displayName"))?.map(|s| spec_truncate(s, 64));
    exp_str(&format!("{}.displayName", what), disp, got.display_name.as_deref())?;
    Ok(())
}

pub fn check_descriptor_ref(
    what: &str,
    model: &Value,
    got: &webauthn::PublicKeyCredentialDescriptorRef,
) -> R {
    exp_bytes(&format!("{}.id", what), model.gets("id"), Some(got.id.as_ref()))?;
    let ty = model_str("desc.type", model.gets("type"))?;
    exp_str(&format!("{}.type", what), ty, Some(got.key_type))?;
    Ok(())
}

pub fn check_descriptor_list(
    what: &str,
    model: Option<&Value>,
    got: Option<&[webauthn::PublicKeyCredentialDescriptorRef]>,
) -> R {
    match (model, got) {
        (None, None) => Ok(()),
        (Some(m), Some(g)) => {
            let a = m.as_array().ok_or("model list is not an array")?;
            if a.len() != g.len() {
                return Err(format!("{}: expected {} entries got {}", what, a.len(), g.len()));
            }
            for (i, (mv, gv)) in a.iter().zip(g.iter()).enumerate() {
                check_descriptor_ref(&format!("{}[{}]", what, i), mv, gv)?;
            }
            Ok(())
        }
        (m, g) => Err(format!(
            "{}: expected present={} got present={}",
            what,
            m.is_some(),
            g.is_some()
        )),
    }
}

/// spec: keep entries with type "public-key" and alg in {-7,-8}, in order, first two
pub fn spec_filter_params(model: &Value) -> Result<Vec<i32>, String> {
    let a = model.as_array().ok_or("model params is not an array")?;
    let mut out = vec![];
    for e in a {
        let alg = e.gets("alg").and_then(|v| v.as_int()).ok_or("model param lacks alg")?;
        let ty = e.gets("type").and_then(|v| v.as_str()).ok_or("model param lacks type")?;
        if ty == "public-key" && (alg == -7 || alg == -8) && out.len() < 2 {
            out.push(alg as i32);
        }
    }
    Ok(out)
}

pub fn check_params(
    what: &str,
    model: &Value,
    got: &webauthn::FilteredPublicKeyCredentialParameters,
) -> R {
    let want = spec_filter_params(model)?;
    let g: Vec<i32> = got.0.iter().map(|k| k.alg).collect();
    if want != g {
        return Err(format!("{}: expected algs {:?} got {:?}", what, want, g));
    }
    Ok(())
}

/// spec: known = entries in {"packed","none"} in order (first two); unknown = any other entry
pub fn spec_filter_formats(model: &Value) -> Result<(Vec<&'static str>, bool), String> {
    let a = model.as_array().ok_or("model formats is not an array")?;
    let mut known = vec![];
    let mut unknown = false;
    for e in a {
        match e.as_str().ok_or("model format is not text")? {
            "packed" => {
                if known.len() < 2 {
                    known.push("packed")
                }
            }
            "none" => {
                if known.len() < 2 {
                    known.push("none")
                }
            }
            _ => unknown = true,
        }
    }
    Ok((known, unknown))
}

pub fn check_formats(
    what: &str,
    model: Option<&Value>,
    got: Option<&ctap2::AttestationFormatsPreference>,
) -> R {
    match (model, got) {
        (None, None) => Ok(()),
        (Some(m), Some(g)) => {
            let (known, unknown) = spec_filter_formats(m)?;
            let gk: Vec<&str> = g
                .known_formats()
                .iter()
                .map(|f| match f {
                    ctap2::AttestationStatementFormat::None => "none",
                    ctap2::AttestationStatementFormat::Packed => "packed",
                    _ => "?",
                })
                .collect();
            if known != gk || unknown != g.includes_unknown_formats() {
                return Err(format!(
                    "{}: expected known={:?} unknown={} got known={:?} unknown={}",
                    what,
                    known,
                    unknown,
                    gk,
                    g.includes_unknown_formats()
                ));
            }
            Ok(())
        }
        (m, g) => Err(format!(
            "{}: expected present={} got present={}",
            what,
            m.is_some(),
            g.is_some()
        )),
    }
}

pub fn check_options(what: &str, model: Option<&Value>, got: Option<&ctap2::AuthenticatorOptions>) -> R {
    match (model, got) {
        (None, None) => Ok(()),
        (Some(m), Some(g)) => {
            exp_bool(&format!("{}.rk", what), m.gets("rk"), g.rk)?;
            exp_bool(&format!("{}.up", what), m.gets("up"), g.up)?;
            exp_bool(&format!("{}.uv", what), m.gets("uv"), g.uv)?;
            Ok(())
        }
        (m, g) => Err(format!(
            "{}: expected present={} got present={}",
            what,
            m.is_some(),
            g.is_some()
        )),
    }
}

pub fn check_cose_ecdh(what: &str, model: &Value, got: &cosey::EcdhEsHkdf256PublicKey) -> R {
    exp_bytes(&format!("{}.x", what), model.geti(-2), Some(got.x.as_slice()))?;
    exp_bytes(&format!("{}.y", what), model.geti(-3), Some(got.y.as_slice()))?;
    Ok(())
}

pub fn check_hmac_input(what: &str, model: &Value, got: &ctap2::get_assertion::HmacSecretInput) -> R {
    check_cose_ecdh(&format!("{}.keyAgreement", what), need(model, 1, "hmac.1")?, &got.key_agreement)?;
    exp_bytes(&format!("{}.saltEnc", what), model.geti(2), Some(got.salt_enc.as_slice()))?;
    exp_bytes(&format!("{}.saltAuth", what), model.geti(3), Some(got.salt_auth.as_slice()))?;
    exp_uint(&format!("{}.pinProtocol", what), model.geti(4), got.pin_protocol.map(u64::from))?;
    Ok(())
}

pub fn check_mc(v: &Value, r: &ctap2::make_credential::Request) -> R {
    exp_bytes("clientDataHash(1)", v.geti(1), Some(r.client_data_hash.as_ref()))?;
    check_rp("rp(2)", need(v, 2, "rp")?, &r.rp)?;
    check_user("user(3)", need(v, 3, "user")?, &r.user)?;
    check_params("pubKeyCredParams(4)", need(v, 4, "params")?, &r.pub_key_cred_params)?;
    check_descriptor_list("excludeList(5)", v.geti(5), r.exclude_list.as_deref())?;
    match (v.geti(6), r.extensions.as_ref()) {
        (None, None) => {}
        (Some(m), Some(g)) => {
            exp_uint("extensions(6).credProtect", m.gets("credProtect"), g.cred_protect.map(u64::from))?;
            exp_bool("extensions(6).hmac-secret", m.gets("hmac-secret"), g.hmac_secret)?;
            exp_bool("extensions(6).largeBlobKey", m.gets("largeBlobKey"), g.large_blob_key)?;
            #[cfg(feature = "tpp")]
            exp_bool(
                "extensions(6).thirdPartyPayment",
                m.gets("thirdPartyPayment"),
                g.third_party_payment,
            )?;
        }
        (m, g) => {
            return Err(format!(
                "extensions(6): expected present={} got present={}",
                m.is_some(),
                g.is_some()
            ))
        }
    }
    check_options("options(7)", v.geti(7), r.options.as_ref())?;
    exp_bytes("pinUvAuthParam(8)", v.geti(8), r.pin_auth.map(|b| b.as_ref()))?;
    exp_uint("pinUvAuthProtocol(9)", v.geti(9), r.pin_protocol.map(u64::from))?;
    exp_uint("enterpriseAttestation(10)", v.geti(10), r.enterprise_attestation.map(u64::from))?;
    check_formats(
        "attestationFormatsPreference(11)",
        v.geti(11),
        r.attestation_formats_preference.as_ref(),
    )?;
    Ok(())
}

pub fn check_ga(v: &Value, r: &ctap2::get_assertion::Request) -> R {
    exp_str("rpId(1)", model_str("rpId", v.geti(1))?, Some(r.rp_id))?;
    exp_bytes("clientDataHash(2)", v.geti(2), Some(r.client_data_hash.as_ref()))?;
    check_descriptor_list("allowList(3)", v.geti(3), r.allow_list.as_deref())?;
    match (v.geti(4), r.extensions.as_ref()) {
        (None, None) => {}
        (Some(m), Some(g)) => {
            match (m.gets("hmac-secret"), g.hmac_secret.as_ref()) {
                (None, None) => {}
                (Some(hm), Some(hg)) => check_hmac_input("extensions(4).hmac-secret", hm, hg)?,
                (a, b) => {
                    return Err(format!(
                        "extensions(4).hmac-secret: expected present={} got present={}",
                        a.is_some(),
                        b.is_some()
                    ))
                }
            }
            exp_bool("extensions(4).largeBlobKey", m.gets("largeBlobKey"), g.large_blob_key)?;
            #[cfg(feature = "tpp")]
            exp_bool(
                "extensions(4).thirdPartyPayment",
                m.gets("thirdPartyPayment"),
                g.third_party_payment,
            )?;
        }
        (m, g) => {
            return Err(format!(
                "extensions(4): expected present={} got present={}",
                m.is_some(),
                g.is_some()
            ))
        }
    }
    check_options("options(5)", v.geti(5), r.options.as_ref())?;
    exp_bytes("pinUvAuthParam(6)", v.geti(6), r.pin_auth.map(|b| b.as_ref()))?;
    exp_uint("pinUvAuthProtocol(7)", v.geti(7), r.pin_protocol.map(u64::from))?;
    exp_uint("enterpriseAttestation(8)", v.geti(8), r.enterprise_attestation.map(u64::from))?;
    check_formats(
        "attestationFormatsPreference(9)",
        v.geti(9),
        r.attestation_formats_preference.as_ref(),
    )?;
    Ok(())
}

pub fn pin_subcommand_number(s: &PinV1Subcommand) -> u64 {
    // specification numbering of authenticatorClientPIN sub-commands
    match s {
        PinV1Subcommand::GetRetries => 1,
        PinV1Subcommand::GetKeyAgreement => 2,
        PinV1Subcommand::SetPin => 3,
        PinV1Subcommand::ChangePin => 4,
        PinV1Subcommand::GetPinToken => 5,
        PinV1Subcommand::GetPinUvAuthTokenUsingUvWithPermissions => 6,
        PinV1Subcommand::GetUVRetries => 7,
        PinV1Subcommand::GetPinUvAuthTokenUsingPinWithPermissions => 9,
        _ => u64::MAX,
    }
}

pub fn cm_subcommand_number(s: &Subcommand) -> u64 {
    match s {
        Subcommand::GetCredsMetadata => 1,
        Subcommand::EnumerateRpsBegin => 2,
        Subcommand::EnumerateRpsGetNextRp => 3,
        Subcommand::EnumerateCredentialsBegin => 4,
        Subcommand::EnumerateCredentialsGetNextCredential => 5,
        Subcommand::DeleteCredential => 6,
        Subcommand::UpdateUserInformation => 7,
        _ => u64::MAX,
    }
}

pub fn check_cp(v: &Value, r: &ctap2::client_pin::Request) -> R {
    exp_uint("pinUvAuthProtocol(1)", v.geti(1), Some(r.pin_protocol as u64))?;
    exp_uint("subCommand(2)", v.geti(2), Some(pin_subcommand_number(&r.sub_command)))?;
    match (v.geti(3), r.key_agreement.as_ref()) {
        (None, None) => {}
        (Some(m), Some(g)) => check_cose_ecdh("keyAgreement(3)", m, g)?,
        (m, g) => {
            return Err(format!(
                "keyAgreement(3): expected present={} got present={}",
                m.is_some(),
                g.is_some()
            ))
        }
    }
    exp_bytes("pinUvAuthParam(4)", v.geti(4), r.pin_auth.map(|b| b.as_ref()))?;
    exp_bytes("newPinEnc(5)", v.geti(5), r.new_pin_enc.map(|b| b.as_ref()))?;
    exp_bytes("pinHashEnc(6)", v.geti(6), r.pin_hash_enc.map(|b| b.as_ref()))?;
    exp_uint("permissions(9)", v.geti(9), r.permissions.map(u64::from))?;
    exp_str("rpId(10)", model_str("rpId", v.geti(10))?, r.rp_id)?;
    Ok(())
}

pub fn check_cm(v: &Value, r: &ctap2::credential_management::Request) -> R {
    exp_uint("subCommand(1)", v.geti(1), Some(cm_subcommand_number(&r.sub_command)))?;
    match (v.geti(2), r.sub_command_params.as_ref()) {
        (None, None) => {}
        (Some(m), Some(g)) => {
            exp_bytes(
                "subCommandParams(2).rpIDHash(1)",
                m.geti(1),
                g.rp_id_hash.map(|h| &h[..]),
            )?;
            match (m.geti(2), g.credential_id.as_ref()) {
                (None, None) => {}
                (Some(dm), Some(dg)) => check_descriptor_ref("subCommandParams(2).credentialID(2)", dm, dg)?,
                (a, b) => {
                    return Err(format!(
                        "subCommandParams(2).credentialID(2): expected present={} got present={}",
                        a.is_some(),
                        b.is_some()
                    ))
                }
            }
            match (m.geti(3), g.user.as_ref()) {
                (None, None) => {}
                (Some(um), Some(ug)) => check_user("subCommandParams(2).user(3)", um, ug)?,
                (a, b) => {
                    return Err(format!(
                        "subCommandParams(2).user(3): expected present={} got present={}",
                        a.is_some(),
                        b.is_some()
                    ))
                }
            }
        }
        (m, g) => {
            return Err(format!(
                "subCommandParams(2): expected present={} got present={}",
                m.is_some(),
                g.is_some()
            ))
        }
    }
    exp_uint("pinUvAuthProtocol(3)", v.geti(3), r.pin_protocol.map(u64::from))?;
    exp_bytes("pinUvAuthParam(4)", v.geti(4), r.pin_auth.map(|b| b.as_ref()))?;
    Ok(())
}

pub fn check_lb(v: &Value, r: &ctap2::large_blobs::Request) -> R {
    exp_uint("get(1)", v.geti(1), r.get.map(u64::from))?;
    exp_bytes("set(2)", v.geti(2), r.set.map(|b| b.as_ref()))?;
    exp_uint("offset(3)", v.geti(3), Some(r.offset as u64))?;
    exp_uint("length(4)", v.geti(4), r.length.map(u64::from))?;
    exp_bytes("pinUvAuthParam(5)", v.geti(5), r.pin_uv_auth_param.map(|b| b.as_ref()))?;
    exp_uint("pinUvAuthProtocol(6)", v.geti(6), r.pin_uv_auth_protocol.map(u64::from))?;
    Ok(())
}

/// Compare a decoded request with the model for command byte `cmd`.
pub fn check_request(cmd: u8, v: &Value, r: &ctap2::Request) -> R {
    match (cmd, r) {
        (CMD_MC, ctap2::Request::MakeCredential(x)) => check_mc(v, x),
        (CMD_GA, ctap2::Request::GetAssertion(x)) => check_ga(v, x),
        (CMD_CP, ctap2::Request::ClientPin(x)) => check_cp(v, x),
        (CMD_CM, ctap2::Request::CredentialManagement(x))
        | (CMD_CM_PREVIEW, ctap2::Request::CredentialManagement(x)) => check_cm(v, x),
        (CMD_LB, ctap2::Request::LargeBlobs(x)) => check_lb(v, x),
        (c, other) => Err(format!(
            "command 0x{:02x} decoded to the wrong variant: {}",
            c,
            variant_name(other)
        )),
    }
}

pub fn variant_name(r: &ctap2::Request) -> &'static str {
    match r {
        ctap2::Request::MakeCredential(_) => "MakeCredential",
        ctap2::Request::GetAssertion(_) => "GetAssertion",
        ctap2::Request::GetNextAssertion => "GetNextAssertion",
        ctap2::Request::GetInfo => "GetInfo",
        ctap2::Request::ClientPin(_) => "ClientPin",
        ctap2::Request::Reset => "Reset",
        ctap2::Request::CredentialManagement(_) => "CredentialManagement",
        ctap2::Request::Selection => "Selection",
        ctap2::Request::LargeBlobs(_) => "LargeBlobs",
        ctap2::Request::Vendor(_) => "Vendor",
        _ => "unknown-variant",
    }
}

/// The first path component of an oracle message ("rp(2).name: ..." -> "rp(2).name").
pub fn member_of(msg: &str) -> &str {
    msg.split(':').next().unwrap_or(msg)
}

/// Strip list indices so that signatures do not depend on position.
pub fn strip_indices(s: &str) -> String {
    let mut out = String::new();
    let mut skip = false;
    for c in s.chars() {
        if c == '[' {
            skip = true;
            out.push_str("[]");
        } else if c == ']' {
            skip = false;
        } else if !skip {
            out.push(c);
        }
    }
    out
}

// ---------------------------------------------------------------------------------------------
// Specification tables used by the fault-injection properties (C05, C12)

use crate::mutate::{Path, Step};

fn pk(k: i64) -> Step {
    Step::Key(Value::int(k))
}
fn ps(k: &str) -> Step {
    Step::Key(Value::text(k))
}

#[derive(Clone, Copy, Debug, PartialEq, Eq)]
pub enum BoundKind {
    BytesLen(usize),
    TextLen(usize),
    ListLen(usize),
    UintMax(u64),
    /// signed 32-bit
    I32,
    /// exactly this many bytes
    BytesExact(usize),
}

#[derive(Clone, Debug)]
pub struct Bound {
    pub cmd: u8,
    pub name: &'static str,
    pub path: Path,
    pub kind: BoundKind,
    /// over-limit values are dropped, not rejected
    pub lossy_drop: bool,
}

/// The limit table of the C12 statement, located in each command that carries the member.
pub fn bounds() -> Vec<Bound> {
    let b = |cmd, name, path: Vec<Step>, kind| Bound { cmd, name, path, kind, lossy_drop: false };
    let mut v = vec![
        b(CMD_MC, "user.id", vec![pk(3), ps("id")], BoundKind::BytesLen(64)),
        b(CMD_MC, "rp.id", vec![pk(2), ps("id")], BoundKind::TextLen(256)),
        Bound { cmd: CMD_MC, name: "user.icon", path: vec![pk(3), ps("icon")], kind: BoundKind::TextLen(128), lossy_drop: true },
        b(CMD_MC, "pubKeyCredParams.type", vec![pk(4), Step::Index(0), ps("type")], BoundKind::TextLen(32)),
        b(CMD_MC, "pubKeyCredParams.alg", vec![pk(4), Step::Index(0), ps("alg")], BoundKind::I32),
        b(CMD_MC, "excludeList", vec![pk(5)], BoundKind::ListLen(16)),
        b(CMD_MC, "credProtect", vec![pk(6), ps("credProtect")], BoundKind::UintMax(255)),
        b(CMD_MC, "pinUvAuthProtocol", vec![pk(9)], BoundKind::UintMax(u32::MAX as u64)),
        b(CMD_MC, "enterpriseAttestation", vec![pk(10)], BoundKind::UintMax(u32::MAX as u64)),
        b(CMD_GA, "allowList", vec![pk(3)], BoundKind::ListLen(10)),
        b(CMD_GA, "hmac-secret.saltEnc", vec![pk(4), ps("hmac-secret"), pk(2)], BoundKind::BytesLen(80)),
        b(CMD_GA, "hmac-secret.saltAuth", vec![pk(4), ps("hmac-secret"), pk(3)], BoundKind::BytesLen(32)),
        b(CMD_GA, "hmac-secret.keyAgreement.x", vec![pk(4), ps("hmac-secret"), pk(1), pk(-2)], BoundKind::BytesLen(32)),
        b(CMD_GA, "hmac-secret.keyAgreement.y", vec![pk(4), ps("hmac-secret"), pk(1), pk(-3)], BoundKind::BytesLen(32)),
        b(CMD_GA, "hmac-secret.pinUvAuthProtocol", vec![pk(4), ps("hmac-secret"), pk(4)], BoundKind::UintMax(u32::MAX as u64)),
        b(CMD_GA, "pinUvAuthProtocol", vec![pk(7)], BoundKind::UintMax(u32::MAX as u64)),
        b(CMD_GA, "enterpriseAttestation", vec![pk(8)], BoundKind::UintMax(u32::MAX as u64)),
        b(CMD_CP, "pinUvAuthProtocol", vec![pk(1)], BoundKind::UintMax(255)),
        b(CMD_CP, "permissions", vec![pk(9)], BoundKind::UintMax(255)),
        b(CMD_CP, "keyAgreement.x", vec![pk(3), pk(-2)], BoundKind::BytesLen(32)),
        b(CMD_CP, "keyAgreement.y", vec![pk(3), pk(-3)], BoundKind::BytesLen(32)),
        b(CMD_LB, "get", vec![pk(1)], BoundKind::UintMax(u32::MAX as u64)),
        b(CMD_LB, "offset", vec![pk(3)], BoundKind::UintMax(u32::MAX as u64)),
        b(CMD_LB, "length", vec![pk(4)], BoundKind::UintMax(u32::MAX as u64)),
        b(CMD_LB, "pinUvAuthProtocol", vec![pk(6)], BoundKind::UintMax(u32::MAX as u64)),
    ];
    for cmd in [CMD_CM, CMD_CM_PREVIEW] {
        v.push(b(cmd, "pinUvAuthProtocol", vec![pk(3)], BoundKind::UintMax(255)));
        v.push(b(cmd, "subCommandParams.rpIDHash", vec![pk(2), pk(1)], BoundKind::BytesExact(32)));
        v.push(b(cmd, "subCommandParams.user.id", vec![pk(2), pk(3), ps("id")], BoundKind::BytesLen(64)));
        v.push(Bound {
            cmd,
            name: "subCommandParams.user.icon",
            path: vec![pk(2), pk(3), ps("icon")],
            kind: BoundKind::TextLen(128),
            lossy_drop: true,
        });
    }
    v
}

/// Required members: (command, path of the containing map (may contain a wildcard list index),
/// key). Removing one from an otherwise well-formed message must give MissingParameter.
pub fn required_members(cmd: u8, model: &Value) -> Vec<(Path, Value)> {
    let mut out: Vec<(Path, Value)> = vec![];
    let top: &[i64] = match cmd {
        CMD_MC => &[1, 2, 3, 4],
        CMD_GA => &[1, 2],
        CMD_CP => &[1, 2],
        CMD_CM | CMD_CM_PREVIEW => &[1],
        CMD_LB => &[3],
        _ => &[],
    };
    for k in top {
        out.push((vec![], Value::int(*k)));
    }
    let descriptor = |out: &mut Vec<(Path, Value)>, p: Path| {
        out.push((p.clone(), Value::text("id")));
        out.push((p, Value::text("type")));
    };
    let cose = |out: &mut Vec<(Path, Value)>, p: Path| {
        for k in [1i64, -1, -2, -3] {
            out.push((p.clone(), Value::int(k)));
        }
    };
    let list_len = |p: &[Step]| crate::mutate::get(model, p).and_then(|v| v.as_array()).map(|a| a.len()).unwrap_or(0);
    match cmd {
        CMD_MC => {
            out.push((vec![pk(2)], Value::text("id")));
            out.push((vec![pk(3)], Value::text("id")));
            for i in 0..list_len(&[pk(4)]) {
                out.push((vec![pk(4), Step::Index(i)], Value::text("alg")));
                out.push((vec![pk(4), Step::Index(i)], Value::text("type")));
            }
            for i in 0..list_len(&[pk(5)]) {
                descriptor(&mut out, vec![pk(5), Step::Index(i)]);
            }
        }
        CMD_GA => {
            for i in 0..list_len(&[pk(3)]) {
                descriptor(&mut out, vec![pk(3), Step::Index(i)]);
            }
            let h = vec![pk(4), ps("hmac-secret")];
            if crate::mutate::get(model, &h).is_some() {
                for k in [1i64, 2, 3] {
                    out.push((h.clone(), Value::int(k)));
                }
                let mut c = h.clone();
                c.push(pk(1));
                cose(&mut out, c);
            }
        }
        CMD_CP => {
            if crate::mutate::get(model, &[pk(3)]).is_some() {
                cose(&mut out, vec![pk(3)]);
            }
        }
        CMD_CM | CMD_CM_PREVIEW => {
            if crate::mutate::get(model, &[pk(2), pk(2)]).is_some() {
                descriptor(&mut out, vec![pk(2), pk(2)]);
            }
            if crate::mutate::get(model, &[pk(2), pk(3)]).is_some() {
                out.push((vec![pk(2), pk(3)], Value::text("id")));
            }
        }
        _ => {}
    }
    // keep only those that exist in this model
    out.into_iter()
        .filter(|(p, k)| crate::mutate::get(model, p).and_then(|m| m.get(k)).is_some())
        .collect()
}

/// members whose value is a signed integer (sign changes are not faults): by path suffix
pub fn is_signed_member(path: &Path) -> bool {
    match path.last() {
        Some(Step::Key(Value::Text(t))) if t == b"alg" => true,
        // COSE key members 1 (kty), 3 (alg), -1 (crv) hold small signed integers
        Some(Step::Key(k)) => {
            let in_cose = path.len() >= 2
                && matches!(&path[path.len() - 2], Step::Key(Value::Uint(1)) | Step::Key(Value::Uint(3)))
                && matches!(k.as_int(), Some(1) | Some(3) | Some(-1));
            in_cose
        }
        _ => false,
    }
}
