//! Case runner: proptest driver over choice sequences, explicit enumerations, counters,
//! samples, violations, journal mode, and the per-run result file.

use crate::util::{digest, Src};
use proptest::prelude::*;
use proptest::test_runner::{Config, RngAlgorithm, TestCaseError, TestError, TestRng, TestRunner};
use serde_json::{json, Value as Json};
use std::cell::RefCell;
use std::collections::{BTreeMap, HashSet};
use std::io::Write;
use std::panic::{catch_unwind, AssertUnwindSafe};

#[derive(Clone, Copy, PartialEq, Eq, Debug)]
pub enum Tier {
    Quick,
    Thorough,
}

/// A failed oracle. `sig` identifies the failure class exactly (used for known findings and
/// for de-duplication); `msg` is human readable; `case` is a self-contained rendering.
#[derive(Clone, Debug)]
pub struct Fail {
    pub sig: String,
    pub msg: String,
    pub case: Json,
    /// generator-independent form of the case: (name of a `*_concrete` generator, payload
    /// bytes). When present the replay file is written in this form, so that committed
    /// regression inputs survive changes to the random generators.
    pub concrete: Option<(&'static str, Vec<u8>)>,
}

impl Fail {
    pub fn new(sig: impl Into<String>, msg: impl Into<String>, case: Json) -> Fail {
        Fail { sig: sig.into(), msg: msg.into(), case, concrete: None }
    }
    pub fn with_concrete(mut self, gen: &'static str, payload: Vec<u8>) -> Fail {
        self.concrete = Some((gen, payload));
        self
    }
}

/// pack bytes into choice words: [len, b0b1b2b3, ...] (big-endian within a word)
pub fn pack_bytes(b: &[u8]) -> Vec<u32> {
    let mut w = vec![b.len() as u32];
    for c in b.chunks(4) {
        let mut x = [0u8; 4];
        x[..c.len()].copy_from_slice(c);
        w.push(u32::from_be_bytes(x));
    }
    w
}

/// inverse of `pack_bytes`, reading from a choice source
pub fn unpack_bytes(src: &mut Src) -> Vec<u8> {
    let n = src.word() as usize;
    let n = n.min(1 << 20);
    let mut out = Vec::with_capacity(n);
    while out.len() < n {
        let w = src.word().to_be_bytes();
        for b in w {
            if out.len() < n {
                out.push(b);
            }
        }
    }
    out
}

pub type CaseResult = Result<(), Fail>;

/// Per-case observations filled in by the generator/oracle code.
pub struct Obs {
    pub labels: Vec<String>,
    pub nontrivial: Option<u64>,
    pub sample: Option<Json>,
    pub want_sample: bool,
    /// counted as excluded-by-construction (known finding shape), not executed
    pub excluded: bool,
    /// when set, the generator renders the case it is about to execute into `case`
    /// (used to describe a case that panics and therefore returns no `Fail`)
    pub capture: bool,
    pub case: Option<Json>,
    /// a case that executes many sub-cases (e.g. one seed crossed with every single fault)
    /// reports them here: they are added to the evaluation count
    pub sub_evals: u64,
    pub sub_nontrivial: Vec<u64>,
    pub counts: Vec<(String, u64)>,
}

impl Obs {
    pub fn new(want_sample: bool) -> Obs {
        Obs {
            labels: Vec::new(),
            nontrivial: None,
            sample: None,
            want_sample,
            excluded: false,
            capture: false,
            case: None,
            sub_evals: 0,
            sub_nontrivial: Vec::new(),
            counts: Vec::new(),
        }
    }
    /// describe the case about to be executed (evaluated only in capture mode)
    pub fn case_with(&mut self, f: impl FnOnce() -> Json) {
        if self.capture {
            self.case = Some(f());
        }
    }
    pub fn label(&mut self, l: &str) {
        self.labels.push(l.to_string());
    }
    pub fn labelf(&mut self, l: String) {
        self.labels.push(l);
    }
    /// mark the case non-trivial; `parts` identify it for distinct counting
    pub fn nontrivial(&mut self, parts: &[&[u8]]) {
        self.nontrivial = Some(digest(parts));
    }
    /// one executed sub-case: class label and identity for distinct counting
    pub fn sub(&mut self, class: &str, parts: &[&[u8]]) {
        self.sub_evals += 1;
        self.sub_nontrivial.push(digest(parts));
        match self.counts.iter_mut().find(|(k, _)| k == class) {
            Some(e) => e.1 += 1,
            None => self.counts.push((class.to_string(), 1)),
        }
    }
    pub fn sample_with(&mut self, f: impl FnOnce() -> Json) {
        if self.want_sample && self.sample.is_none() {
            self.sample = Some(f());
        }
    }
}

pub type GenFn = fn(&mut Src, &mut Obs) -> CaseResult;

#[derive(Clone, Copy)]
pub struct Gen {
    pub name: &'static str,
    pub f: GenFn,
}

pub struct Violation {
    pub fail: Fail,
    pub gen: String,
    pub words: Vec<u32>,
}

pub struct Ctx {
    pub prop: String,
    pub tier: Tier,
    pub seed: u64,
    pub config: String,
    pub shard: (u64, u64),
    pub evaluations: u64,
    pub nontrivial: HashSet<u64>,
    pub hist: BTreeMap<String, u64>,
    pub samples: Vec<Json>,
    pub violations: Vec<Violation>,
    pub excluded_known: u64,
    pub notes: Vec<String>,
    pub exhaustive: Vec<String>,
    pub required_labels: Vec<String>,
    pub journal: Option<String>,
    journal_file: Option<std::fs::File>,
    /// number of failures whose signature was already recorded (not shrunk again)
    pub repeat_failures: u64,
    /// configuration name mixed into the proptest seed (C16 replaces it by a constant so that
    /// every configuration generates the same corpus)
    pub seed_config: String,
    pub out_path: Option<String>,
    /// number of choice words the most recent `exec` consumed
    pub last_used: usize,
    next_sample_at: u64,
    pub extra: BTreeMap<String, Json>,
}

/// cases completed so far in this process (watched by the stall detector in main)
pub static PROGRESS: std::sync::atomic::AtomicU64 = std::sync::atomic::AtomicU64::new(0);

thread_local! {
    static LAST_PANIC: RefCell<String> = RefCell::new(String::new());
}

pub fn install_panic_hook() {
    std::panic::set_hook(Box::new(|info| {
        let msg = if let Some(s) = info.payload().downcast_ref::<&str>() {
            s.to_string()
        } else if let Some(s) = info.payload().downcast_ref::<String>() {
            s.clone()
        } else {
            "panic".to_string()
        };
        let loc = info
            .location()
            .map(|l| format!("{}:{}", l.file(), l.line()))
            .unwrap_or_default();
        LAST_PANIC.with(|p| *p.borrow_mut() = format!("{} @ {}", msg, loc));
    }));
}

fn last_panic() -> String {
    LAST_PANIC.with(|p| p.borrow().clone())
}

/// Strip line numbers / volatile detail out of a panic message for use in a signature.
fn panic_sig(msg: &str) -> String {
    let loc = msg.rsplit(" @ ").next().unwrap_or("");
    let file = loc.rsplit('/').next().unwrap_or(loc);
    let file = file.split(':').next().unwrap_or(file);
    // a panic inside the harness's own code (relative path) is a harness defect, not the crate's
    if loc.starts_with("src/") {
        format!("harness:panic@{}", file)
    } else {
        format!("panic@{}", file)
    }
}

const MAX_VIOLATIONS: usize = 12;

/// Run a generator once on explicit words; panics become `Fail`s that carry the case
/// description captured by re-running the generator in capture mode.
pub fn run_gen(gen: &Gen, words: &[u32], obs: &mut Obs) -> (CaseResult, usize) {
    let (r, used) = {
        let mut src = Src::new(words);
        let r = catch_unwind(AssertUnwindSafe(|| (gen.f)(&mut src, obs)));
        (r, src.used())
    };
    match r {
        Ok(r) => (r, used),
        Err(_) => {
            let m = last_panic();
            let mut o2 = Obs::new(false);
            o2.capture = true;
            let mut src = Src::new(words);
            let _ = catch_unwind(AssertUnwindSafe(|| (gen.f)(&mut src, &mut o2)));
            (
                Err(Fail::new(panic_sig(&m), format!("panic: {}", m), o2.case.unwrap_or(json!({})))),
                used,
            )
        }
    }
}

impl Ctx {
    pub fn new(prop: &str, tier: Tier, seed: u64, config: &str, shard: (u64, u64)) -> Ctx {
        Ctx {
            prop: prop.to_string(),
            tier,
            seed,
            config: config.to_string(),
            shard,
            evaluations: 0,
            nontrivial: HashSet::new(),
            hist: BTreeMap::new(),
            samples: Vec::new(),
            violations: Vec::new(),
            excluded_known: 0,
            notes: Vec::new(),
            exhaustive: Vec::new(),
            required_labels: Vec::new(),
            journal: None,
            journal_file: None,
            repeat_failures: 0,
            seed_config: config.to_string(),
            out_path: None,
            last_used: 0,
            next_sample_at: 0,
            extra: BTreeMap::new(),
        }
    }

    pub fn quick(&self) -> bool {
        self.tier == Tier::Quick
    }

    /// pick by tier
    pub fn t<T>(&self, quick: T, thorough: T) -> T {
        if self.quick() {
            quick
        } else {
            thorough
        }
    }

    pub fn too_many(&self) -> bool {
        self.violations.len() >= MAX_VIOLATIONS
    }

    pub fn require(&mut self, labels: &[&str]) {
        for l in labels {
            self.required_labels.push(l.to_string());
        }
    }

    pub fn note(&mut self, s: impl Into<String>) {
        self.notes.push(s.into());
    }

    fn want_sample(&self) -> bool {
        self.evaluations >= self.next_sample_at && self.samples.len() < 40
    }

    fn merge(&mut self, gen: &str, words: &[u32], obs: Obs) {
        if obs.excluded {
            PROGRESS.fetch_add(1, std::sync::atomic::Ordering::Relaxed);
            self.excluded_known += 1;
            return;
        }
        PROGRESS.fetch_add(1, std::sync::atomic::Ordering::Relaxed);
        self.evaluations += 1 + obs.sub_evals;
        if let Some(d) = obs.nontrivial {
            self.nontrivial.insert(d);
        }
        for d in obs.sub_nontrivial {
            self.nontrivial.insert(d);
        }
        for (k, n) in obs.counts {
            *self.hist.entry(k).or_insert(0) += n;
        }
        for l in obs.labels {
            *self.hist.entry(l).or_insert(0) += 1;
        }
        if let Some(s) = obs.sample {
            let mut s = s;
            if let Json::Object(m) = &mut s {
                m.insert("gen".into(), json!(gen));
                if words.len() <= 64 {
                    m.insert("words".into(), json!(words));
                }
            }
            self.samples.push(s);
            self.next_sample_at = if self.next_sample_at == 0 { 1 } else { self.next_sample_at * 2 };
        }
    }

    fn write_journal(&mut self, gen: &str, words: &[u32]) {
        use std::io::{Seek, SeekFrom};
        if self.journal.is_none() {
            return;
        }
        if self.journal_file.is_none() {
            self.journal_file = std::fs::File::create(self.journal.as_ref().unwrap()).ok();
        }
        let text = json!({"property": self.prop, "config": self.config, "gen": gen, "words": words,
                          "sig": "crash", "msg": "process died (abort/signal) while executing this case"})
        .to_string();
        if let Some(f) = self.journal_file.as_mut() {
            // overwrite in place (one write syscall per case); pad so that a shorter record
            // fully replaces a longer one, then trim
            let _ = f.seek(SeekFrom::Start(0));
            let _ = f.write_all(text.as_bytes());
            let _ = f.set_len(text.len() as u64);
        }
    }

    /// Execute one case from explicit words. Returns the failure, if any (also recorded).
    pub fn exec(&mut self, gen: &Gen, words: &[u32]) -> Option<Fail> {
        if self.journal.is_some() {
            self.write_journal(gen.name, words);
        }
        let mut obs = Obs::new(self.want_sample());
        let (r, used) = run_gen(gen, words, &mut obs);
        self.last_used = used;
        let fail = r.err();
        self.merge(gen.name, words, obs);
        if let Some(f) = &fail {
            self.record(gen.name, words, f.clone());
        }
        fail
    }

    pub fn record(&mut self, gen: &str, words: &[u32], fail: Fail) {
        if self.violations.iter().any(|v| v.fail.sig == fail.sig) {
            return;
        }
        if self.violations.len() < MAX_VIOLATIONS {
            let (gen, words) = match &fail.concrete {
                Some((g, payload)) => (g.to_string(), pack_bytes(payload)),
                None => (gen.to_string(), words.to_vec()),
            };
            self.violations.push(Violation { fail, gen, words });
        }
    }

    /// Enumerate explicit word vectors (an exhaustive or lattice sweep). `shardable`: the
    /// items are distributed round-robin over shards.
    pub fn enumerate<I: Iterator<Item = Vec<u32>>>(&mut self, gen: &Gen, items: I) {
        let (si, sn) = self.shard;
        for (i, w) in items.enumerate() {
            if (i as u64) % sn != si {
                continue;
            }
            self.exec(gen, &w);
            if self.too_many() {
                return;
            }
        }
    }

    /// Random search with proptest over choice sequences of up to `max_words` words, after a
    /// fixed `prefix`. `cases` is the total over all shards.
    pub fn random(&mut self, gen: &Gen, prefix: &[u32], cases: u64, max_words: usize) {
        let (si, sn) = self.shard;
        let mut my = cases / sn;
        if si < cases % sn {
            my += 1;
        }
        if my == 0 || self.too_many() {
            return;
        }
        let mut seed = [0u8; 32];
        let pfx: Vec<u8> = prefix.iter().flat_map(|w| w.to_le_bytes()).collect();
        for (i, chunk) in seed.chunks_mut(8).enumerate() {
            let d = digest(&[
                &self.seed.to_le_bytes(),
                self.prop.as_bytes(),
                self.seed_config.as_bytes(),
                gen.name.as_bytes(),
                &pfx,
                &si.to_le_bytes(),
                &[i as u8],
            ]);
            chunk.copy_from_slice(&d.to_le_bytes());
        }
        let config = Config {
            cases: my as u32,
            failure_persistence: None,
            max_shrink_iters: 1_500,
            max_global_rejects: 1,
            verbose: 0,
            ..Config::default()
        };
        let mut runner =
            TestRunner::new_with_rng(config, TestRng::from_seed(RngAlgorithm::ChaCha, &seed));
        let word = prop_oneof![
            10 => any::<u32>(),
            1 => Just(0u32),
            1 => Just(u32::MAX),
        ];
        let strat = prop_oneof![
            1 => proptest::collection::vec(word.clone(), 0..=max_words),
            4 => proptest::collection::vec(word, max_words..=max_words),
        ];
        let cell = RefCell::new((self, true));
        let result = runner.run(&strat, |tail| {
            let mut words: Vec<u32> = Vec::with_capacity(prefix.len() + tail.len());
            words.extend_from_slice(prefix);
            words.extend_from_slice(&tail);
            let mut guard = cell.borrow_mut();
            let (ctx, counting) = &mut *guard;
            if *counting && ctx.journal.is_some() {
                ctx.write_journal(gen.name, &words);
            }
            let mut obs = Obs::new(*counting && ctx.want_sample());
            let r = {
                let mut src = Src::new(&words);
                catch_unwind(AssertUnwindSafe(|| (gen.f)(&mut src, &mut obs)))
            };
            // a failure whose signature is already recorded is not shrunk again (fuzzers and
            // property libraries stop at the first failure; this lets the search continue behind it)
            let r = match r {
                Ok(Err(f)) if *counting && ctx.violations.iter().any(|v| v.fail.sig == f.sig) => {
                    ctx.repeat_failures += 1;
                    Ok(Ok(()))
                }
                other => other,
            };
            let failed = !matches!(r, Ok(Ok(())));
            if *counting {
                ctx.merge(gen.name, &words, obs);
                if failed {
                    // the closure is re-run while shrinking: stop counting now
                    *counting = false;
                }
            }
            match r {
                Ok(Ok(())) => Ok(()),
                Ok(Err(f)) => Err(TestCaseError::fail(f.sig)),
                Err(_) => Err(TestCaseError::fail(panic_sig(&last_panic()))),
            }
        });
        let (ctx, _) = cell.into_inner();
        match result {
            Ok(()) => {}
            Err(TestError::Fail(_, tail)) => {
                let mut words: Vec<u32> = prefix.to_vec();
                words.extend_from_slice(&tail);
                // drop unused trailing words for a tidier replay
                let mut obs = Obs::new(false);
                let (r, used) = run_gen(gen, &words, &mut obs);
                if used < words.len() {
                    words.truncate(used.max(prefix.len()));
                }
                // polishing pass: zero every word that is not needed for the same failure
                let mut r = r;
                if let Err(f0) = &r {
                    let sig = f0.sig.clone();
                    let mut budget = 4000usize;
                    for i in (prefix.len()..words.len()).rev() {
                        if words[i] == 0 || budget == 0 {
                            continue;
                        }
                        budget -= 1;
                        let old = words[i];
                        words[i] = 0;
                        let mut o = Obs::new(false);
                        match run_gen(gen, &words, &mut o).0 {
                            Err(f) if f.sig == sig => r = Err(f),
                            _ => words[i] = old,
                        }
                    }
                    while words.len() > prefix.len() && words.last() == Some(&0) {
                        words.pop();
                    }
                }
                let fail = match r {
                    Ok(()) => Fail::new(
                        "flaky",
                        "case failed during search but passed when re-executed",
                        json!({}),
                    ),
                    Err(f) => f,
                };
                ctx.record(gen.name, &words, fail);
            }
            Err(TestError::Abort(why)) => {
                ctx.notes.push(format!("proptest aborted in {}: {}", gen.name, why));
            }
        }
    }

    pub fn result_json(&self, wall_s: f64) -> Json {
        let missing: Vec<&String> = self
            .required_labels
            .iter()
            .filter(|l| self.hist.get(*l).copied().unwrap_or(0) == 0)
            .collect();
        json!({
            "property": self.prop,
            "config": self.config,
            "tier": if self.quick() { "quick" } else { "thorough" },
            "seed": self.seed,
            "shard": [self.shard.0, self.shard.1],
            "evaluations": self.evaluations,
            "distinct_nontrivial": self.nontrivial.len(),
            "hist": self.hist,
            "samples": self.samples,
            "excluded_known": self.excluded_known,
            "repeat_failures_not_reshrunk": self.repeat_failures,
            "notes": self.notes,
            "exhaustive": self.exhaustive,
            "missing_required_classes": missing,
            "extra": self.extra,
            "violations": self.violations.iter().map(|v| json!({
                "sig": v.fail.sig, "msg": v.fail.msg, "gen": v.gen, "words": v.words, "case": v.fail.case,
            })).collect::<Vec<_>>(),
            "wall_s": wall_s,
        })
    }

    pub fn digests_bytes(&self) -> Vec<u8> {
        let mut v = Vec::with_capacity(self.nontrivial.len() * 8);
        for d in &self.nontrivial {
            v.extend_from_slice(&d.to_le_bytes());
        }
        v
    }
}

/// word that makes `Src::below(n)` return exactly `i`
pub fn idx(i: usize, n: usize) -> u32 {
    if n <= 1 {
        return 0;
    }
    debug_assert!(i < n);
    // smallest w with (w*n)>>32 == i
    let w = ((i as u64) << 32).div_ceil(n as u64);
    w as u32
}

/// word that makes `Src::bool()` return `b`
pub fn bit(b: bool) -> u32 {
    if b {
        u32::MAX
    } else {
        0
    }
}
