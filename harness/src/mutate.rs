//! Tree addressing and mutation of reference-CBOR values; byte-level mutation of messages.

use crate::refcbor::{self, HeadFault, Value};
use crate::util::{text_of_len, Src};

#[derive(Clone, Debug, PartialEq, Eq)]
pub enum Step {
    /// value of the map entry with this key
    Key(Value),
    /// array element
    Index(usize),
}

pub type Path = Vec<Step>;

pub fn path_string(p: &Path) -> String {
    let mut s = String::from("$");
    for st in p {
        match st {
            Step::Key(k) => s.push_str(&format!("/{}", refcbor::show(k))),
            Step::Index(_) => s.push_str("[]"),
        }
    }
    s
}

/// all value nodes (map entry values and array elements, at any depth) in pre-order;
/// the root is included with the empty path
pub fn walk(v: &Value) -> Vec<Path> {
    fn go(v: &Value, cur: &mut Path, out: &mut Vec<Path>) {
        out.push(cur.clone());
        // paths are cloned per node: do not descend into very deep (injected) nesting
        if cur.len() >= 24 || out.len() >= 4000 {
            return;
        }
        match v {
            Value::Map(m) => {
                for (k, x) in m {
                    cur.push(Step::Key(k.clone()));
                    go(x, cur, out);
                    cur.pop();
                }
            }
            Value::Array(a) => {
                for (i, x) in a.iter().enumerate() {
                    cur.push(Step::Index(i));
                    go(x, cur, out);
                    cur.pop();
                }
            }
            Value::Tag(_, _) => {}
            _ => {}
        }
    }
    let mut out = vec![];
    go(v, &mut vec![], &mut out);
    out
}

pub fn get<'a>(v: &'a Value, p: &[Step]) -> Option<&'a Value> {
    let mut cur = v;
    for st in p {
        cur = match (st, cur) {
            (Step::Key(k), Value::Map(m)) => &m.iter().find(|(k2, _)| k2 == k)?.1,
            (Step::Index(i), Value::Array(a)) => a.get(*i)?,
            _ => return None,
        };
    }
    Some(cur)
}

pub fn get_mut<'a>(v: &'a mut Value, p: &[Step]) -> Option<&'a mut Value> {
    let mut cur = v;
    for st in p {
        cur = match (st, cur) {
            (Step::Key(k), Value::Map(m)) => &mut m.iter_mut().find(|(k2, _)| k2 == k)?.1,
            (Step::Index(i), Value::Array(a)) => a.get_mut(*i)?,
            _ => return None,
        };
    }
    Some(cur)
}

/// remove the map entry / array element addressed by `p` (which must be non-empty)
pub fn remove(v: &mut Value, p: &[Step]) -> bool {
    if p.is_empty() {
        return false;
    }
    let (last, parent) = p.split_last().unwrap();
    match (get_mut(v, parent), last) {
        (Some(Value::Map(m)), Step::Key(k)) => {
            let n = m.len();
            m.retain(|(k2, _)| k2 != k);
            m.len() < n
        }
        (Some(Value::Array(a)), Step::Index(i)) if *i < a.len() => {
            a.remove(*i);
            true
        }
        _ => false,
    }
}

/// all map nodes (paths), root first
/// Pre-order index (as counted by `refcbor::heads` / `HeadFault`) of the head of the node at `path`.
pub fn head_index_of(v: &Value, path: &[Step]) -> Option<usize> {
    let count = |x: &Value| refcbor::heads(x).len();
    let mut idx = 0usize;
    let mut cur = v;
    for step in path {
        match (cur, step) {
            (Value::Map(m), Step::Key(k)) => {
                idx += 1;
                let mut found = None;
                for (kk, x) in m {
                    if kk == k {
                        idx += count(kk);
                        found = Some(x);
                        break;
                    }
                    idx += count(kk) + count(x);
                }
                cur = found?;
            }
            (Value::Array(a), Step::Index(i)) => {
                idx += 1;
                for x in a.iter().take(*i) {
                    idx += count(x);
                }
                cur = a.get(*i)?;
            }
            _ => return None,
        }
    }
    Some(idx)
}

pub fn maps(v: &Value) -> Vec<Path> {
    walk(v).into_iter().filter(|p| matches!(get(v, p), Some(Value::Map(_)))).collect()
}

/// wrap a value in `n` nesting levels of the given kind (0 array, 1 map{0:..}, 2 tag)
pub fn nest(v: Value, n: usize, kind: usize) -> Value {
    let mut cur = v;
    for _ in 0..n {
        cur = match kind % 3 {
            0 => Value::Array(vec![cur]),
            1 => Value::Map(vec![(Value::Uint(0), cur)]),
            _ => Value::Tag(0, Box::new(cur)),
        };
    }
    cur
}

pub const TYPE_PALETTE: [&str; 7] = ["unsigned", "negative", "bytes", "text", "array", "map", "boolean"];

/// a fixed representative of each CBOR data type used for "wrong type" faults
pub fn palette(i: usize) -> Value {
    match i {
        0 => Value::Uint(7),
        1 => Value::Nint(6),
        2 => Value::Bytes(vec![1, 2]),
        3 => Value::text("x"),
        4 => Value::Array(vec![Value::Uint(1), Value::Uint(2)]),
        5 => Value::Map(vec![]),
        _ => Value::Bool(true),
    }
}

/// index into TYPE_PALETTE of a value's own type (None for types outside the palette)
pub fn palette_type(v: &Value) -> Option<usize> {
    Some(match v {
        Value::Uint(_) => 0,
        Value::Nint(_) => 1,
        Value::Bytes(_) => 2,
        Value::Text(_) => 3,
        Value::Array(_) => 4,
        Value::Map(_) => 5,
        Value::Bool(_) => 6,
        _ => return None,
    })
}

/// any well-formed definite-length CBOR value (for unknown members), bounded depth
pub fn any_value(src: &mut Src, depth: usize) -> Value {
    let leaf_only = depth == 0;
    let k = src.below(if leaf_only { 12 } else { 16 });
    match k {
        0 => Value::Uint(crate::util::lattice_uint(src, u64::MAX)),
        1 => Value::Nint(crate::util::lattice_uint(src, u64::MAX)),
        2 => {
            let n = *src.pick(&[0usize, 1, 23, 24, 255, 256, 40]);
            Value::Bytes(src.bytes(n))
        }
        3 => {
            let n = *src.pick(&[0usize, 1, 23, 24, 255, 256, 12]);
            Value::Text(text_of_len(src, n).into_bytes())
        }
        4 => Value::Bool(src.bool()),
        5 => Value::Null,
        6 => Value::Undefined,
        7 => Value::Simple(*src.pick(&[0u8, 16, 19, 32, 255])),
        8 => Value::F16(src.word() as u16),
        9 => Value::F32(src.word()),
        10 => Value::F64(src.u64()),
        11 => Value::Array(vec![]),
        12 => {
            let n = src.range(0, 5);
            Value::Array((0..n).map(|_| any_value(src, depth - 1)).collect())
        }
        13 => {
            let n = src.range(0, 4);
            Value::Map((0..n).map(|_| (any_value(src, depth - 1), any_value(src, depth - 1))).collect())
        }
        14 => Value::Tag(crate::util::lattice_uint(src, u64::MAX), Box::new(any_value(src, depth - 1))),
        _ => {
            // a chain: nesting depth up to `depth`
            let n = src.range(1, depth);
            let kind = src.below(3);
            nest(any_value(src, 0), n, kind)
        }
    }
}

/// real-world extension / option members that platforms send and this crate does not model
pub fn realistic_unknown(src: &mut Src) -> (Value, Value) {
    match src.below(10) {
        8 => (Value::text("thirdPartyPayment"), if src.bool() { Value::Bool(true) } else { Value::Uint(1) }),
        9 => (Value::text("credBlob"), Value::Bool(true)),
        0 => (
            Value::text("transports"),
            Value::Array(vec![Value::text("usb"), Value::text("nfc"), Value::text("internal")]),
        ),
        1 => (Value::text("credBlob"), Value::Bytes(src.bytes(32))),
        2 => (Value::text("minPinLength"), Value::Bool(true)),
        3 => (Value::text("credProps"), Value::Bool(true)),
        4 => (
            Value::text("hmac-secret-mc"),
            Value::Map(vec![
                (Value::Uint(1), Value::Map(vec![(Value::Uint(1), Value::Uint(2)), (Value::Uint(3), Value::int(-25))])),
                (Value::Uint(2), Value::Bytes(src.bytes(32))),
                (Value::Uint(3), Value::Bytes(src.bytes(16))),
            ]),
        ),
        5 => (
            Value::text("prf"),
            Value::Map(vec![(
                Value::text("eval"),
                Value::Map(vec![(Value::text("first"), Value::Bytes(src.bytes(32)))]),
            )]),
        ),
        6 => (Value::text("getCredBlob"), Value::Bool(true)),
        _ => (Value::text("uvm"), Value::Bool(true)),
    }
}

/// One structure-level mutation of a parameter map. Returns a label describing it, or None
/// if it was not applicable. `budget` is the maximal encoded size aimed at.
/// number of nodes, counted up to `limit`
pub fn node_count(v: &Value, limit: usize) -> usize {
    fn go(v: &Value, n: &mut usize, limit: usize) {
        *n += 1;
        if *n >= limit {
            return;
        }
        match v {
            Value::Array(a) => a.iter().for_each(|x| go(x, n, limit)),
            Value::Map(m) => m.iter().for_each(|(k, x)| {
                go(k, n, limit);
                go(x, n, limit)
            }),
            Value::Tag(_, x) => go(x, n, limit),
            _ => {}
        }
    }
    let mut n = 0;
    go(v, &mut n, limit);
    n
}

pub fn mutate_tree(v: &mut Value, src: &mut Src, budget: usize) -> Option<String> {
    // keep the harness itself cheap: once a previous mutation has made the tree huge (deep
    // nesting, grown lists) further structural mutation is skipped
    if node_count(v, 20_000) >= 20_000 {
        return None;
    }
    let nodes = walk(v);
    let p = nodes[src.below(nodes.len())].clone();
    let op = src.below(9);
    let node = get_mut(v, &p)?;
    match op {
        0 => {
            // grow a string / list / map across capacity boundaries
            let target = *src.pick(&[33usize, 65, 81, 129, 256, 257, 300, 768, 1025, 3009, 7000]);
            let target = target.min(budget);
            match node {
                Value::Bytes(b) => {
                    b.resize(target, 0x5A);
                    Some(format!("grow-bytes:{}", target))
                }
                Value::Text(t) => {
                    // one repeated character (also joiners, marks, 4-byte emoji), or two alternating:
                    // replacing what was there in a third of the cases so that the text STARTS with it
                    let fills: [&str; 10] = ["a", "é", "\u{200d}", "\u{20ac}\u{200d}", "\u{200d}\u{20ac}", "\u{1f600}", "\u{301}", "\u{fe0f}", "\u{0}", "a\u{1f468}\u{200d}"];
                    let fill = fills[src.below(fills.len())];
                    if src.chance(1, 3) {
                        t.clear();
                    }
                    while t.len() + fill.len() <= target {
                        t.extend_from_slice(fill.as_bytes());
                    }
                    Some(format!("grow-text:{}", t.len()))
                }
                Value::Array(a) => {
                    let n = *src.pick(&[3usize, 11, 17, 64, 300]);
                    let filler = match a.last() {
                        Some(x) if node_count(x, 64) < 64 => x.clone(),
                        _ => Value::Uint(0),
                    };
                    while a.len() < n {
                        a.push(filler.clone());
                    }
                    Some(format!("grow-array:{}", n))
                }
                Value::Map(m) => {
                    let n = *src.pick(&[1usize, 5, 30]);
                    for i in 0..n {
                        m.push((Value::text(&format!("zz-unknown-{}", i)), Value::Uint(i as u64)));
                    }
                    Some(format!("grow-map:+{}", n))
                }
                _ => None,
            }
        }
        1 => {
            // push an integer past its type range
            // unsigned type maxima and maxima + 1, and - read as the argument of a negative integer - the
            // signed minima (-1 - n): 2^7-1, 2^15-1, 2^31-1, 2^63-1 are i8/i16/i32/i64::MIN
            let big = *src.pick(&[255u64, 256, 65535, 65536, 0xFFFF_FFFF, 0x1_0000_0000, 1 << 63, u64::MAX, 127, 128, 32767, 32768, (1 << 31) - 1, 1 << 31, (1 << 63) - 1, u64::MAX - 1]);
            match node {
                Value::Uint(u) => {
                    if src.bool() {
                        *u = big;
                    } else {
                        *node = Value::Nint(big);
                    }
                    Some("int-range".into())
                }
                Value::Nint(n) => {
                    *n = big;
                    Some("int-range".into())
                }
                _ => None,
            }
        }
        2 => {
            let t = src.below(7);
            *node = palette(t);
            Some(format!("type-replace:{}", TYPE_PALETTE[t]))
        }
        3 => {
            // wrap in nesting
            let n = *src.pick(&[1usize, 2, 16, 64, 65, 500, 3000, 7500]);
            let n = n.min(budget.saturating_sub(16));
            let kind = src.below(3);
            let inner = std::mem::replace(node, Value::Null);
            *node = nest(inner, n, kind);
            Some(format!("nest:{}", if n > 64 { ">64" } else { "<=64" }))
        }
        4 => {
            // duplicate an entry of a map
            if let Value::Map(m) = node {
                if !m.is_empty() {
                    let i = src.below(m.len());
                    let e = m[i].clone();
                    m.insert(i, e);
                    return Some("dup-entry".into());
                }
            }
            None
        }
        5 => {
            if let Value::Map(m) = node {
                if !m.is_empty() {
                    let i = src.below(m.len());
                    m.remove(i);
                    return Some("drop-entry".into());
                }
            }
            None
        }
        6 => {
            // corrupt UTF-8
            if let Value::Text(t) = node {
                if !t.is_empty() {
                    let i = src.below(t.len());
                    t[i] = *src.pick(&[0x80u8, 0xC0, 0xE0, 0xF8, 0xFF, 0xED]);
                    return Some("corrupt-utf8".into());
                }
            }
            None
        }
        7 => {
            // insert an unknown member with a deeply nested value into a text-keyed map
            if let Value::Map(m) = node {
                let n = *src.pick(&[1usize, 16, 64, 65, 1000, 3500, 7500]);
                let n = n.min(budget.saturating_sub(64));
                let kind = src.below(3);
                let pos = src.below(m.len() + 1);
                m.insert(pos, (Value::text("deep"), nest(Value::Uint(0), n, kind)));
                return Some(format!("unknown-deep:{}", if n > 64 { ">64" } else { "<=64" }));
            }
            None
        }
        _ => {
            *node = any_value(src, 4);
            Some("replace-any".into())
        }
    }
}

/// Encode a parameter map keeping entry order, optionally with one head-encoding fault.
pub fn encode_with_random_head_fault(v: &Value, src: &mut Src) -> (Vec<u8>, Option<String>) {
    let hs = refcbor::heads(v);
    if hs.is_empty() {
        return (refcbor::encode(v), None);
    }
    let idx = src.below(hs.len());
    let fault = match src.below(4) {
        0 => HeadFault::Wider { idx, width: *src.pick(&[1u8, 2, 4, 8]) },
        1 => HeadFault::Indefinite { idx },
        2 => HeadFault::Reserved { idx, ai: 28 + src.below(4) as u8 },
        _ => {
            // a length / count / value that lies: larger than what follows
            let (_, n) = hs[idx];
            let arg = match src.below(8) {
                0 => n.wrapping_add(1),
                1 => n.saturating_sub(1),
                2 => 23,
                3 => 255,
                4 => 65535,
                5 => 0xFFFF_FFFF,
                6 => 0x1_0000_0000,
                _ => u64::MAX,
            };
            HeadFault::Lie { idx, arg }
        }
    };
    let (b, applied) = refcbor::encode_fault(v, fault);
    (b, if applied { Some(format!("{:?}", fault).split(' ').next().unwrap_or("head").to_string()) } else { None })
}

/// One byte-level mutation. `other` is a second valid message for splicing.
pub fn mutate_bytes(b: &mut Vec<u8>, other: &[u8], src: &mut Src) -> String {
    let op = src.below(7);
    if b.is_empty() {
        b.push(src.byte());
        return "insert".into();
    }
    match op {
        0 => {
            let i = src.below(b.len());
            let bit = src.below(8);
            b[i] ^= 1 << bit;
            "flip".into()
        }
        1 => {
            let i = src.below(b.len() + 1);
            let n = src.range(1, 4);
            for _ in 0..n {
                let x = src.byte();
                b.insert(i, x);
            }
            "insert".into()
        }
        2 => {
            let i = src.below(b.len());
            let n = src.range(1, 4).min(b.len() - i);
            b.drain(i..i + n);
            "delete".into()
        }
        3 => {
            // splice: head of b + tail of other
            let i = src.below(b.len() + 1);
            let j = src.below(other.len() + 1);
            b.truncate(i);
            b.extend_from_slice(&other[j..]);
            "splice".into()
        }
        4 => {
            let i = src.below(b.len());
            b.truncate(i);
            "truncate".into()
        }
        5 => {
            // stray bytes after the message
            let n = src.range(1, 9);
            for _ in 0..n {
                let x = src.byte();
                b.push(x);
            }
            "append".into()
        }
        _ => {
            let i = src.below(b.len());
            b[i] = *src.pick(&[0x00u8, 0x17, 0x18, 0x19, 0x1A, 0x1B, 0x1F, 0x5F, 0x7F, 0x9F, 0xBF, 0xFF, 0xF6, 0xC0]);
            "set-special".into()
        }
    }
}
