//! Reference CBOR codec written from RFC 8949 and the CTAP2 "Message Encoding" rules.
//! Shares no code with cbor-smol / serde. It is the trusted base of most oracles and is
//! guarded by `selftest` (RFC 8949 Appendix A vectors + round trips).

use std::cmp::Ordering;

#[derive(Clone, Debug, PartialEq, Eq, Hash)]
pub enum Value {
    Uint(u64),
    /// value is -1 - n
    Nint(u64),
    Bytes(Vec<u8>),
    /// raw bytes of a text string (may be ill-formed UTF-8 when injected as a fault)
    Text(Vec<u8>),
    Array(Vec<Value>),
    Map(Vec<(Value, Value)>),
    Bool(bool),
    Null,
    Undefined,
    Simple(u8),
    Tag(u64, Box<Value>),
    F16(u16),
    F32(u32),
    F64(u64),
}

impl Value {
    pub fn text(s: &str) -> Value {
        Value::Text(s.as_bytes().to_vec())
    }
    pub fn int(i: i64) -> Value {
        if i >= 0 {
            Value::Uint(i as u64)
        } else {
            Value::Nint((-1 - i) as u64)
        }
    }
    pub fn as_int(&self) -> Option<i128> {
        match self {
            Value::Uint(u) => Some(*u as i128),
            Value::Nint(n) => Some(-1 - (*n as i128)),
            _ => None,
        }
    }
    pub fn as_text(&self) -> Option<&[u8]> {
        match self {
            Value::Text(t) => Some(t),
            _ => None,
        }
    }
    pub fn as_str(&self) -> Option<&str> {
        match self {
            Value::Text(t) => std::str::from_utf8(t).ok(),
            _ => None,
        }
    }
    pub fn as_bytes(&self) -> Option<&[u8]> {
        match self {
            Value::Bytes(t) => Some(t),
            _ => None,
        }
    }
    pub fn as_bool(&self) -> Option<bool> {
        match self {
            Value::Bool(b) => Some(*b),
            _ => None,
        }
    }
    pub fn as_array(&self) -> Option<&Vec<Value>> {
        match self {
            Value::Array(a) => Some(a),
            _ => None,
        }
    }
    pub fn as_map(&self) -> Option<&Vec<(Value, Value)>> {
        match self {
            Value::Map(m) => Some(m),
            _ => None,
        }
    }
    pub fn as_map_mut(&mut self) -> Option<&mut Vec<(Value, Value)>> {
        match self {
            Value::Map(m) => Some(m),
            _ => None,
        }
    }
    /// first entry with this key
    pub fn get(&self, key: &Value) -> Option<&Value> {
        self.as_map()?.iter().find(|(k, _)| k == key).map(|(_, v)| v)
    }
    pub fn geti(&self, key: i64) -> Option<&Value> {
        self.get(&Value::int(key))
    }
    pub fn gets(&self, key: &str) -> Option<&Value> {
        self.get(&Value::text(key))
    }
    pub fn major(&self) -> u8 {
        match self {
            Value::Uint(_) => 0,
            Value::Nint(_) => 1,
            Value::Bytes(_) => 2,
            Value::Text(_) => 3,
            Value::Array(_) => 4,
            Value::Map(_) => 5,
            Value::Tag(..) => 6,
            _ => 7,
        }
    }
    pub fn type_name(&self) -> &'static str {
        match self {
            Value::Uint(_) => "uint",
            Value::Nint(_) => "nint",
            Value::Bytes(_) => "bytes",
            Value::Text(_) => "text",
            Value::Array(_) => "array",
            Value::Map(_) => "map",
            Value::Bool(_) => "bool",
            Value::Null => "null",
            Value::Undefined => "undefined",
            Value::Simple(_) => "simple",
            Value::Tag(..) => "tag",
            Value::F16(_) | Value::F32(_) | Value::F64(_) => "float",
        }
    }
    /// nesting depth (scalars = 0)
    pub fn depth(&self) -> usize {
        match self {
            Value::Array(a) => 1 + a.iter().map(|v| v.depth()).max().unwrap_or(0),
            Value::Map(m) => {
                1 + m
                    .iter()
                    .map(|(k, v)| k.depth().max(v.depth()))
                    .max()
                    .unwrap_or(0)
            }
            Value::Tag(_, v) => 1 + v.depth(),
            _ => 0,
        }
    }
    pub fn is_container_or_tag(&self) -> bool {
        matches!(self, Value::Array(_) | Value::Map(_) | Value::Tag(..))
    }
    pub fn contains_null(&self) -> bool {
        match self {
            Value::Null => true,
            Value::Array(a) => a.iter().any(|v| v.contains_null()),
            Value::Map(m) => m.iter().any(|(k, v)| k.contains_null() || v.contains_null()),
            Value::Tag(_, v) => v.contains_null(),
            _ => false,
        }
    }
}

fn head(out: &mut Vec<u8>, major: u8, n: u64) {
    head_width(out, major, n, 0)
}

/// `min_width`: 0 = shortest; 1,2,4,8 = force at least that many following bytes.
fn head_width(out: &mut Vec<u8>, major: u8, n: u64, min_width: u8) {
    let m = major << 5;
    let natural: u8 = if n < 24 {
        0
    } else if n <= 0xFF {
        1
    } else if n <= 0xFFFF {
        2
    } else if n <= 0xFFFF_FFFF {
        4
    } else {
        8
    };
    let w = natural.max(min_width);
    match w {
        0 => out.push(m | n as u8),
        1 => {
            out.push(m | 24);
            out.push(n as u8);
        }
        2 => {
            out.push(m | 25);
            out.extend_from_slice(&(n as u16).to_be_bytes());
        }
        4 => {
            out.push(m | 26);
            out.extend_from_slice(&(n as u32).to_be_bytes());
        }
        _ => {
            out.push(m | 27);
            out.extend_from_slice(&n.to_be_bytes());
        }
    }
}

/// Which single encoding fault (if any) to inject while encoding.
#[derive(Clone, Copy, Debug, PartialEq, Eq)]
pub enum HeadFault {
    None,
    /// re-encode the head with pre-order index `idx` using `width` following bytes (1,2,4,8)
    Wider { idx: usize, width: u8 },
    /// make the container / string with pre-order head index `idx` indefinite-length
    Indefinite { idx: usize },
    /// write a different (lying) argument into the head with pre-order index `idx`, e.g. a
    /// length or element count far larger than what follows
    Lie { idx: usize, arg: u64 },
    /// write the head with pre-order index `idx` with a RESERVED additional-information value
    /// (`ai` in 28..=30, or 31 for the major types that have no indefinite form: 0, 1, 6); what
    /// follows is emitted as if the head had been well-formed
    Reserved { idx: usize, ai: u8 },
}

pub struct Encoder {
    pub out: Vec<u8>,
    pub fault: HeadFault,
    pub counter: usize,
    /// set when the requested fault was applicable and applied
    pub applied: bool,
    /// for every head in pre-order: (major, argument, is_container_or_string)
    pub heads: Vec<(u8, u64)>,
}

impl Encoder {
    pub fn new(fault: HeadFault) -> Self {
        Encoder {
            out: Vec::new(),
            fault,
            counter: 0,
            applied: false,
            heads: Vec::new(),
        }
    }

    fn natural_width(n: u64) -> u8 {
        if n < 24 {
            0
        } else if n <= 0xFF {
            1
        } else if n <= 0xFFFF {
            2
        } else if n <= 0xFFFF_FFFF {
            4
        } else {
            8
        }
    }

    /// returns true if this head was made indefinite (caller must emit break)
    fn emit_head(&mut self, major: u8, n: u64) -> bool {
        let idx = self.counter;
        self.counter += 1;
        self.heads.push((major, n));
        match self.fault {
            HeadFault::Wider { idx: i, width } if i == idx => {
                if width > Self::natural_width(n) {
                    self.applied = true;
                    head_width(&mut self.out, major, n, width);
                } else {
                    head(&mut self.out, major, n);
                }
                false
            }
            HeadFault::Lie { idx: i, arg } if i == idx => {
                self.applied = arg != n;
                head(&mut self.out, major, arg);
                false
            }
            HeadFault::Reserved { idx: i, ai } if i == idx => {
                if (28..=30).contains(&ai) || (ai == 31 && matches!(major, 0 | 1 | 6)) {
                    self.applied = true;
                    self.out.push((major << 5) | ai);
                } else {
                    head(&mut self.out, major, n);
                }
                false
            }
            HeadFault::Indefinite { idx: i } if i == idx && (2..=5).contains(&major) => {
                self.applied = true;
                self.out.push((major << 5) | 31);
                true
            }
            _ => {
                head(&mut self.out, major, n);
                false
            }
        }
    }

    pub fn value(&mut self, v: &Value) {
        match v {
            Value::Uint(n) => {
                self.emit_head(0, *n);
            }
            Value::Nint(n) => {
                self.emit_head(1, *n);
            }
            Value::Bytes(b) => {
                if self.emit_head(2, b.len() as u64) {
                    // one definite chunk, then break
                    head(&mut self.out, 2, b.len() as u64);
                    self.out.extend_from_slice(b);
                    self.out.push(0xFF);
                } else {
                    self.out.extend_from_slice(b);
                }
            }
            Value::Text(b) => {
                if self.emit_head(3, b.len() as u64) {
                    head(&mut self.out, 3, b.len() as u64);
                    self.out.extend_from_slice(b);
                    self.out.push(0xFF);
                } else {
                    self.out.extend_from_slice(b);
                }
            }
            Value::Array(a) => {
                let indef = self.emit_head(4, a.len() as u64);
                for x in a {
                    self.value(x);
                }
                if indef {
                    self.out.push(0xFF);
                }
            }
            Value::Map(m) => {
                let indef = self.emit_head(5, m.len() as u64);
                for (k, x) in m {
                    self.value(k);
                    self.value(x);
                }
                if indef {
                    self.out.push(0xFF);
                }
            }
            Value::Tag(t, x) => {
                self.emit_head(6, *t);
                self.value(x);
            }
            Value::Bool(false) => self.out.push(0xF4),
            Value::Bool(true) => self.out.push(0xF5),
            Value::Null => self.out.push(0xF6),
            Value::Undefined => self.out.push(0xF7),
            Value::Simple(s) => {
                if *s < 24 {
                    self.out.push(0xE0 | *s);
                } else {
                    self.out.push(0xF8);
                    self.out.push(*s);
                }
            }
            Value::F16(b) => {
                self.out.push(0xF9);
                self.out.extend_from_slice(&b.to_be_bytes());
            }
            Value::F32(b) => {
                self.out.push(0xFA);
                self.out.extend_from_slice(&b.to_be_bytes());
            }
            Value::F64(b) => {
                self.out.push(0xFB);
                self.out.extend_from_slice(&b.to_be_bytes());
            }
        }
    }
}

/// Encode with shortest heads and definite lengths, keeping map entries in the order given.
pub fn encode(v: &Value) -> Vec<u8> {
    let mut e = Encoder::new(HeadFault::None);
    e.value(v);
    e.out
}

/// Encode after sorting every map into CTAP2 canonical key order.
pub fn encode_canonical(v: &Value) -> Vec<u8> {
    encode(&canonicalize(v))
}

/// Encode with one injected head fault. Returns (bytes, applied).
pub fn encode_fault(v: &Value, fault: HeadFault) -> (Vec<u8>, bool) {
    let mut e = Encoder::new(fault);
    e.value(v);
    (e.out, e.applied)
}

/// The list of heads (major, argument) in pre-order, as `encode` would emit them.
pub fn heads(v: &Value) -> Vec<(u8, u64)> {
    let mut e = Encoder::new(HeadFault::None);
    e.value(v);
    e.heads
}

/// CTAP2 canonical ordering of two keys given their encodings:
/// lower major type first, then shorter encoding, then bytewise.
pub fn key_cmp(a: &[u8], b: &[u8]) -> Ordering {
    let (ma, mb) = (a[0] >> 5, b[0] >> 5);
    ma.cmp(&mb)
        .then(a.len().cmp(&b.len()))
        .then_with(|| a.cmp(b))
}

pub fn canonicalize(v: &Value) -> Value {
    match v {
        Value::Array(a) => Value::Array(a.iter().map(canonicalize).collect()),
        Value::Map(m) => {
            let mut items: Vec<(Vec<u8>, Value, Value)> = m
                .iter()
                .map(|(k, x)| {
                    let k = canonicalize(k);
                    (encode(&k), k, canonicalize(x))
                })
                .collect();
            items.sort_by(|a, b| key_cmp(&a.0, &b.0));
            Value::Map(items.into_iter().map(|(_, k, x)| (k, x)).collect())
        }
        Value::Tag(t, x) => Value::Tag(*t, Box::new(canonicalize(x))),
        other => other.clone(),
    }
}

#[derive(Debug, Clone, PartialEq, Eq)]
pub struct ParseError(pub String);

struct Parser<'a> {
    b: &'a [u8],
    pos: usize,
    strict: bool,
    depth: usize,
}

const MAX_DEPTH: usize = 100_000;

impl<'a> Parser<'a> {
    fn err<T>(&self, msg: &str) -> Result<T, ParseError> {
        Err(ParseError(format!("{} at offset {}", msg, self.pos)))
    }
    fn take(&mut self, n: usize) -> Result<&'a [u8], ParseError> {
        if self.b.len() - self.pos < n {
            return self.err("unexpected end");
        }
        let s = &self.b[self.pos..self.pos + n];
        self.pos += n;
        Ok(s)
    }
    fn arg(&mut self, ai: u8) -> Result<u64, ParseError> {
        Ok(match ai {
            0..=23 => ai as u64,
            24 => {
                let v = self.take(1)?[0] as u64;
                if self.strict && v < 24 {
                    return self.err("non-minimal 1-byte argument");
                }
                v
            }
            25 => {
                let s = self.take(2)?;
                let v = u16::from_be_bytes([s[0], s[1]]) as u64;
                if self.strict && v <= 0xFF {
                    return self.err("non-minimal 2-byte argument");
                }
                v
            }
            26 => {
                let s = self.take(4)?;
                let v = u32::from_be_bytes([s[0], s[1], s[2], s[3]]) as u64;
                if self.strict && v <= 0xFFFF {
                    return self.err("non-minimal 4-byte argument");
                }
                v
            }
            27 => {
                let s = self.take(8)?;
                let mut a = [0u8; 8];
                a.copy_from_slice(s);
                let v = u64::from_be_bytes(a);
                if self.strict && v <= 0xFFFF_FFFF {
                    return self.err("non-minimal 8-byte argument");
                }
                v
            }
            _ => return self.err("reserved additional information"),
        })
    }
    fn item(&mut self) -> Result<Value, ParseError> {
        self.depth += 1;
        if self.depth > MAX_DEPTH {
            return self.err("too deep");
        }
        let r = self.item_inner();
        self.depth -= 1;
        r
    }
    fn item_inner(&mut self) -> Result<Value, ParseError> {
        let ib = self.take(1)?[0];
        let major = ib >> 5;
        let ai = ib & 0x1F;
        if ai == 31 {
            if self.strict {
                return self.err("indefinite length");
            }
            return match major {
                2 | 3 => {
                    let mut acc = Vec::new();
                    loop {
                        if self.pos < self.b.len() && self.b[self.pos] == 0xFF {
                            self.pos += 1;
                            break;
                        }
                        let h = self.take(1)?[0];
                        if h >> 5 != major || h & 0x1F == 31 {
                            return self.err("bad chunk in indefinite string");
                        }
                        let n = self.arg(h & 0x1F)? as usize;
                        acc.extend_from_slice(self.take(n)?);
                    }
                    Ok(if major == 2 { Value::Bytes(acc) } else { Value::Text(acc) })
                }
                4 => {
                    let mut a = Vec::new();
                    loop {
                        if self.pos < self.b.len() && self.b[self.pos] == 0xFF {
                            self.pos += 1;
                            break;
                        }
                        a.push(self.item()?);
                    }
                    Ok(Value::Array(a))
                }
                5 => {
                    let mut m = Vec::new();
                    loop {
                        if self.pos < self.b.len() && self.b[self.pos] == 0xFF {
                            self.pos += 1;
                            break;
                        }
                        let k = self.item()?;
                        let v = self.item()?;
                        m.push((k, v));
                    }
                    Ok(Value::Map(m))
                }
                _ => self.err("bad indefinite / break"),
            };
        }
        match major {
            0 => Ok(Value::Uint(self.arg(ai)?)),
            1 => Ok(Value::Nint(self.arg(ai)?)),
            2 => {
                let n = self.arg(ai)?;
                if n > (self.b.len() - self.pos) as u64 {
                    return self.err("unexpected end");
                }
                Ok(Value::Bytes(self.take(n as usize)?.to_vec()))
            }
            3 => {
                let n = self.arg(ai)?;
                if n > (self.b.len() - self.pos) as u64 {
                    return self.err("unexpected end");
                }
                Ok(Value::Text(self.take(n as usize)?.to_vec()))
            }
            4 => {
                let n = self.arg(ai)?;
                if n > (self.b.len() - self.pos) as u64 {
                    return self.err("unexpected end");
                }
                let mut a = Vec::with_capacity(n as usize);
                for _ in 0..n {
                    a.push(self.item()?);
                }
                Ok(Value::Array(a))
            }
            5 => {
                let n = self.arg(ai)?;
                if n > (self.b.len() - self.pos) as u64 {
                    return self.err("unexpected end");
                }
                let mut m = Vec::with_capacity(n as usize);
                for _ in 0..n {
                    let k = self.item()?;
                    let v = self.item()?;
                    m.push((k, v));
                }
                Ok(Value::Map(m))
            }
            6 => {
                let t = self.arg(ai)?;
                let v = self.item()?;
                Ok(Value::Tag(t, Box::new(v)))
            }
            _ => match ai {
                0..=19 => Ok(Value::Simple(ai)),
                20 => Ok(Value::Bool(false)),
                21 => Ok(Value::Bool(true)),
                22 => Ok(Value::Null),
                23 => Ok(Value::Undefined),
                24 => {
                    let s = self.take(1)?[0];
                    if s < 32 {
                        return self.err("invalid two-byte simple value");
                    }
                    Ok(Value::Simple(s))
                }
                25 => {
                    let s = self.take(2)?;
                    Ok(Value::F16(u16::from_be_bytes([s[0], s[1]])))
                }
                26 => {
                    let s = self.take(4)?;
                    Ok(Value::F32(u32::from_be_bytes([s[0], s[1], s[2], s[3]])))
                }
                27 => {
                    let s = self.take(8)?;
                    let mut a = [0u8; 8];
                    a.copy_from_slice(s);
                    Ok(Value::F64(u64::from_be_bytes(a)))
                }
                _ => self.err("reserved"),
            },
        }
    }
}

/// Parse exactly one item (definite lengths, shortest heads), no trailing bytes.
pub fn parse_strict(b: &[u8]) -> Result<Value, ParseError> {
    let mut p = Parser { b, pos: 0, strict: true, depth: 0 };
    let v = p.item()?;
    if p.pos != b.len() {
        return Err(ParseError(format!("{} trailing bytes", b.len() - p.pos)));
    }
    Ok(v)
}

/// Parse one item leniently (non-minimal heads and indefinite lengths accepted).
/// Returns the value and the number of bytes consumed.
pub fn parse_lenient(b: &[u8]) -> Result<(Value, usize), ParseError> {
    let mut p = Parser { b, pos: 0, strict: false, depth: 0 };
    let v = p.item()?;
    Ok((v, p.pos))
}

/// Parse one strict item from the front, returning consumed length.
pub fn parse_strict_prefix(b: &[u8]) -> Result<(Value, usize), ParseError> {
    let mut p = Parser { b, pos: 0, strict: true, depth: 0 };
    let v = p.item()?;
    Ok((v, p.pos))
}

fn canon_value(v: &Value, path: &mut String) -> Result<(), String> {
    match v {
        Value::Uint(_) | Value::Nint(_) | Value::Bytes(_) | Value::Bool(_) | Value::Null => Ok(()),
        Value::Text(t) => {
            if std::str::from_utf8(t).is_err() {
                return Err(format!("ill-formed UTF-8 text at {}", path));
            }
            Ok(())
        }
        Value::Array(a) => {
            for (i, x) in a.iter().enumerate() {
                let l = path.len();
                path.push_str(&format!("[{}]", i));
                canon_value(x, path)?;
                path.truncate(l);
            }
            Ok(())
        }
        Value::Map(m) => {
            let mut prev: Option<Vec<u8>> = None;
            for (k, x) in m {
                let ek = encode(k);
                if let Some(p) = &prev {
                    match key_cmp(p, &ek) {
                        Ordering::Less => {}
                        Ordering::Equal => {
                            return Err(format!("duplicate key {} at {}", show(k), path))
                        }
                        Ordering::Greater => {
                            return Err(format!(
                                "key-order: {} emitted after {} at {}",
                                show(k),
                                show_enc(p),
                                path
                            ))
                        }
                    }
                }
                let l = path.len();
                path.push_str(&format!("/{}", show(k)));
                canon_value(k, path)?;
                canon_value(x, path)?;
                path.truncate(l);
                prev = Some(ek);
            }
            Ok(())
        }
        Value::Tag(t, _) => Err(format!("tag {} at {}", t, path)),
        Value::Undefined => Err(format!("undefined at {}", path)),
        Value::Simple(s) => Err(format!("simple({}) at {}", s, path)),
        Value::F16(_) | Value::F32(_) | Value::F64(_) => Err(format!("float at {}", path)),
    }
}

fn show_enc(k: &[u8]) -> String {
    match parse_lenient(k) {
        Ok((v, _)) => show(&v),
        Err(_) => crate::util::hex(k),
    }
}

/// Short human rendering of a key / scalar.
pub fn show(v: &Value) -> String {
    match v {
        Value::Uint(u) => format!("{}", u),
        Value::Nint(n) => format!("{}", -1 - (*n as i128)),
        Value::Text(t) => match std::str::from_utf8(t) {
            Ok(s) if s.len() <= 40 => format!("\"{}\"", s),
            Ok(s) => format!("text[{}]", s.len()),
            Err(_) => format!("badtext[{}]", t.len()),
        },
        Value::Bytes(b) => format!("bytes[{}]", b.len()),
        Value::Array(a) => format!("array[{}]", a.len()),
        Value::Map(m) => format!("map[{}]", m.len()),
        Value::Bool(b) => format!("{}", b),
        Value::Null => "null".into(),
        Value::Undefined => "undefined".into(),
        Value::Simple(s) => format!("simple({})", s),
        Value::Tag(t, _) => format!("tag({})", t),
        Value::F16(_) | Value::F32(_) | Value::F64(_) => "float".into(),
    }
}

/// Full diagnostic-notation style rendering (bounded).
pub fn diag(v: &Value) -> String {
    fn go(v: &Value, out: &mut String, budget: &mut isize) {
        if *budget <= 0 {
            out.push('…');
            return;
        }
        *budget -= 1;
        match v {
            Value::Bytes(b) => {
                if b.len() <= 8 {
                    out.push_str(&format!("h'{}'", crate::util::hex(b)));
                } else {
                    out.push_str(&format!("h'{}…'({})", crate::util::hex(&b[..4]), b.len()));
                }
            }
            Value::Array(a) => {
                out.push('[');
                for (i, x) in a.iter().enumerate() {
                    if i > 0 {
                        out.push_str(", ");
                    }
                    go(x, out, budget);
                }
                out.push(']');
            }
            Value::Map(m) => {
                out.push('{');
                for (i, (k, x)) in m.iter().enumerate() {
                    if i > 0 {
                        out.push_str(", ");
                    }
                    go(k, out, budget);
                    out.push_str(": ");
                    go(x, out, budget);
                }
                out.push('}');
            }
            Value::Tag(t, x) => {
                out.push_str(&format!("{}(", t));
                go(x, out, budget);
                out.push(')');
            }
            other => out.push_str(&show(other)),
        }
    }
    let mut s = String::new();
    let mut budget = 200isize;
    go(v, &mut s, &mut budget);
    s
}

/// CTAP2 canonical CBOR validator: exactly one item, no trailing bytes, definite lengths,
/// shortest heads, no tags/floats/undefined/other simple values, no duplicate keys, keys in
/// canonical order, well-formed UTF-8 in text - at every depth.
pub fn check_canonical(b: &[u8]) -> Result<Value, String> {
    let v = parse_strict(b).map_err(|e| format!("not strict CBOR: {}", e.0))?;
    let mut path = String::from("$");
    canon_value(&v, &mut path)?;
    Ok(v)
}

/// Order-insensitive structural equality with duplicate detection on both sides.
pub fn eq_unordered(a: &Value, b: &Value) -> Result<(), String> {
    fn go(a: &Value, b: &Value, path: &mut String) -> Result<(), String> {
        match (a, b) {
            (Value::Map(ma), Value::Map(mb)) => {
                for (i, (k, _)) in ma.iter().enumerate() {
                    if ma[..i].iter().any(|(k2, _)| k2 == k) {
                        return Err(format!("duplicate key {} at {} (left)", show(k), path));
                    }
                }
                for (i, (k, _)) in mb.iter().enumerate() {
                    if mb[..i].iter().any(|(k2, _)| k2 == k) {
                        return Err(format!("duplicate key {} at {} (right)", show(k), path));
                    }
                }
                for (k, va) in ma {
                    match mb.iter().find(|(k2, _)| k2 == k) {
                        None => {
                            return Err(format!(
                                "member {} at {} present on the left only",
                                show(k),
                                path
                            ))
                        }
                        Some((_, vb)) => {
                            let l = path.len();
                            path.push_str(&format!("/{}", show(k)));
                            go(va, vb, path)?;
                            path.truncate(l);
                        }
                    }
                }
                for (k, _) in mb {
                    if !ma.iter().any(|(k2, _)| k2 == k) {
                        return Err(format!(
                            "member {} at {} present on the right only",
                            show(k),
                            path
                        ));
                    }
                }
                Ok(())
            }
            (Value::Array(xa), Value::Array(xb)) => {
                if xa.len() != xb.len() {
                    return Err(format!(
                        "array length {} vs {} at {}",
                        xa.len(),
                        xb.len(),
                        path
                    ));
                }
                for (i, (x, y)) in xa.iter().zip(xb.iter()).enumerate() {
                    let l = path.len();
                    path.push_str(&format!("[{}]", i));
                    go(x, y, path)?;
                    path.truncate(l);
                }
                Ok(())
            }
            (Value::Tag(ta, xa), Value::Tag(tb, xb)) if ta == tb => go(xa, xb, path),
            (x, y) => {
                if x == y {
                    Ok(())
                } else {
                    Err(format!("value {} vs {} at {}", diag(x), diag(y), path))
                }
            }
        }
    }
    let mut p = String::from("$");
    go(a, b, &mut p)
}

/// Self-test of the reference codec: RFC 8949 Appendix A vectors and structural checks.
pub fn selftest() -> Result<usize, String> {
    use crate::util::unhex;
    let mut n = 0usize;
    // (hex, value) pairs from RFC 8949 Appendix A (those expressible without floats semantics)
    let vectors: Vec<(&str, Value)> = vec![
        ("00", Value::Uint(0)),
        ("01", Value::Uint(1)),
        ("0a", Value::Uint(10)),
        ("17", Value::Uint(23)),
        ("1818", Value::Uint(24)),
        ("1819", Value::Uint(25)),
        ("1864", Value::Uint(100)),
        ("1903e8", Value::Uint(1000)),
        ("1a000f4240", Value::Uint(1_000_000)),
        ("1b000000e8d4a51000", Value::Uint(1_000_000_000_000)),
        ("1bffffffffffffffff", Value::Uint(u64::MAX)),
        ("3bffffffffffffffff", Value::Nint(u64::MAX)),
        ("20", Value::int(-1)),
        ("29", Value::int(-10)),
        ("3863", Value::int(-100)),
        ("3903e7", Value::int(-1000)),
        ("f90000", Value::F16(0)),
        ("f93c00", Value::F16(0x3c00)),
        ("fa47c35000", Value::F32(0x47c35000)),
        ("fb3ff199999999999a", Value::F64(0x3ff199999999999a)),
        ("f4", Value::Bool(false)),
        ("f5", Value::Bool(true)),
        ("f6", Value::Null),
        ("f7", Value::Undefined),
        ("f0", Value::Simple(16)),
        ("f8ff", Value::Simple(255)),
        ("c074323031332d30332d32315432303a30343a30305a", Value::Tag(0, Box::new(Value::text("2013-03-21T20:04:00Z")))),
        ("c11a514b67b0", Value::Tag(1, Box::new(Value::Uint(1363896240)))),
        ("d74401020304", Value::Tag(23, Box::new(Value::Bytes(vec![1, 2, 3, 4])))),
        ("d818456449455446", Value::Tag(24, Box::new(Value::Bytes(b"dIETF".to_vec())))),
        ("40", Value::Bytes(vec![])),
        ("4401020304", Value::Bytes(vec![1, 2, 3, 4])),
        ("60", Value::text("")),
        ("6161", Value::text("a")),
        ("6449455446", Value::text("IETF")),
        ("62225c", Value::text("\"\\")),
        ("62c3bc", Value::text("\u{fc}")),
        ("63e6b0b4", Value::text("\u{6c34}")),
        ("64f0908591", Value::text("\u{10151}")),
        ("80", Value::Array(vec![])),
        ("83010203", Value::Array(vec![Value::Uint(1), Value::Uint(2), Value::Uint(3)])),
        (
            "8301820203820405",
            Value::Array(vec![
                Value::Uint(1),
                Value::Array(vec![Value::Uint(2), Value::Uint(3)]),
                Value::Array(vec![Value::Uint(4), Value::Uint(5)]),
            ]),
        ),
        (
            "98190102030405060708090a0b0c0d0e0f101112131415161718181819",
            Value::Array((1..=25).map(Value::Uint).collect()),
        ),
        ("a0", Value::Map(vec![])),
        (
            "a201020304",
            Value::Map(vec![(Value::Uint(1), Value::Uint(2)), (Value::Uint(3), Value::Uint(4))]),
        ),
        (
            "a26161016162820203",
            Value::Map(vec![
                (Value::text("a"), Value::Uint(1)),
                (Value::text("b"), Value::Array(vec![Value::Uint(2), Value::Uint(3)])),
            ]),
        ),
        (
            "826161a161626163",
            Value::Array(vec![
                Value::text("a"),
                Value::Map(vec![(Value::text("b"), Value::text("c"))]),
            ]),
        ),
        (
            "a56161614161626142616361436164614461656145",
            Value::Map(
                ["a", "b", "c", "d", "e"]
                    .iter()
                    .map(|k| (Value::text(k), Value::text(&k.to_uppercase())))
                    .collect(),
            ),
        ),
    ];
    for (h, v) in &vectors {
        let b = unhex(h).unwrap();
        let e = encode(v);
        if e != b {
            return Err(format!("encode mismatch for {}: got {}", h, crate::util::hex(&e)));
        }
        let p = parse_strict(&b).map_err(|e| format!("parse {}: {}", h, e.0))?;
        if &p != v {
            return Err(format!("parse mismatch for {}", h));
        }
        n += 1;
    }
    // indefinite-length vectors (lenient parser only)
    let indef: Vec<(&str, Value)> = vec![
        ("5f42010243030405ff", Value::Bytes(vec![1, 2, 3, 4, 5])),
        ("7f657374726561646d696e67ff", Value::text("streaming")),
        ("9fff", Value::Array(vec![])),
        (
            "9f018202039f0405ffff",
            Value::Array(vec![
                Value::Uint(1),
                Value::Array(vec![Value::Uint(2), Value::Uint(3)]),
                Value::Array(vec![Value::Uint(4), Value::Uint(5)]),
            ]),
        ),
        (
            "bf61610161629f0203ffff",
            Value::Map(vec![
                (Value::text("a"), Value::Uint(1)),
                (Value::text("b"), Value::Array(vec![Value::Uint(2), Value::Uint(3)])),
            ]),
        ),
    ];
    for (h, v) in &indef {
        let b = unhex(h).unwrap();
        let (p, used) = parse_lenient(&b).map_err(|e| format!("lenient {}: {}", h, e.0))?;
        if &p != v || used != b.len() {
            return Err(format!("lenient mismatch for {}", h));
        }
        if parse_strict(&b).is_ok() {
            return Err(format!("strict parser accepted indefinite {}", h));
        }
        if check_canonical(&b).is_ok() {
            return Err(format!("canonical check accepted indefinite {}", h));
        }
        n += 1;
    }
    // canonical-order checks from the CTAP2 specification text
    let ok = [
        "a3016161026162036163",               // 1,2,3
        "a30a0018640020f5",                   // 10, 100, -1 : lower major first, shorter first
        "a2617a01626161f4",                   // "z" before "aa"
        "a3182001616102626161f6",             // uint32 < text
        "a26269640164747970650a",             // "id" < "type"
    ];
    for h in ok {
        let b = unhex(h).unwrap();
        check_canonical(&b).map_err(|e| format!("canonical rejected {}: {}", h, e))?;
        n += 1;
    }
    let bad = [
        ("a2020001 00", "order"),             // 2 before 1
        ("a2626161f4617a01", "order"),        // "aa" before "z"
        ("a2200001 00", "order"),             // -1 before 1
        ("a201000100", "dup"),
        ("1817", "nonmin"),
        ("190017", "nonmin"),
        ("1a0000ffff", "nonmin"),
        ("1b00000000ffffffff", "nonmin"),
        ("5817", "nonmin"),
        ("c000", "tag"),
        ("f90000", "float"),
        ("f7", "undef"),
        ("f0", "simple"),
        ("0000", "trailing"),
        ("61ff", "utf8"),
        ("a1", "trunc"),
        ("", "empty"),
        ("9fff", "indef"),
        ("81a2020001 00", "nested order"),
    ];
    for (h, why) in bad {
        let b = unhex(&h.replace(' ', "")).unwrap();
        if check_canonical(&b).is_ok() {
            return Err(format!("canonical check accepted {} ({})", h, why));
        }
        n += 1;
    }
    // fault injection sanity
    let v = Value::Map(vec![(Value::Uint(1), Value::Bytes(vec![7; 3]))]);
    let hs = heads(&v);
    if hs != vec![(5, 1), (0, 1), (2, 3)] {
        return Err("heads enumeration wrong".into());
    }
    let (b, ap) = encode_fault(&v, HeadFault::Wider { idx: 1, width: 1 });
    if !ap || b != unhex("a1180143070707").unwrap() {
        return Err(format!("wider fault wrong: {}", crate::util::hex(&b)));
    }
    let (b, ap) = encode_fault(&v, HeadFault::Indefinite { idx: 0 });
    if !ap || b != unhex("bf0143070707ff").unwrap() {
        return Err(format!("indefinite fault wrong: {}", crate::util::hex(&b)));
    }
    let (b, ap) = encode_fault(&v, HeadFault::Indefinite { idx: 2 });
    if !ap || b != unhex("a1015f43070707ff").unwrap() {
        return Err(format!("indefinite bytes fault wrong: {}", crate::util::hex(&b)));
    }
    for (b, _) in [
        encode_fault(&v, HeadFault::Wider { idx: 1, width: 1 }),
        encode_fault(&v, HeadFault::Indefinite { idx: 0 }),
        encode_fault(&v, HeadFault::Indefinite { idx: 2 }),
    ] {
        let (p, used) = parse_lenient(&b).map_err(|e| e.0)?;
        if p != v || used != b.len() {
            return Err("faulted encoding does not denote the same value".into());
        }
        if check_canonical(&b).is_ok() {
            return Err("faulted encoding accepted as canonical".into());
        }
    }
    n += 6;
    // canonicalize: sorts, and result passes the validator
    let messy = Value::Map(vec![
        (Value::text("setMinPINLength"), Value::Bool(true)),
        (Value::text("pinUvAuthToken"), Value::Bool(true)),
        (Value::int(-2), Value::Uint(1)),
        (Value::Uint(300), Value::Uint(1)),
        (Value::Uint(3), Value::Map(vec![(Value::text("type"), Value::Null), (Value::text("id"), Value::Null)])),
    ]);
    let c = encode_canonical(&messy);
    check_canonical(&c).map_err(|e| format!("canonicalize output rejected: {}", e))?;
    if check_canonical(&encode(&messy)).is_ok() {
        return Err("unsorted map accepted".into());
    }
    eq_unordered(&messy, &parse_strict(&c).unwrap())?;
    if eq_unordered(&messy, &Value::Map(vec![])).is_ok() {
        return Err("eq_unordered too weak".into());
    }
    n += 4;
    Ok(n)
}


/// A reference value handed to a serde serialiser (used where the crate's API is generic over a
/// caller-supplied `Serialize` type, e.g. authenticator-data extension outputs). Tags, floats,
/// `undefined` and other simple values have no serde counterpart and are refused.
impl serde::Serialize for Value {
    fn serialize<S: serde::Serializer>(&self, s: S) -> Result<S::Ok, S::Error> {
        use serde::ser::{Error, SerializeMap, SerializeSeq};
        match self {
            Value::Uint(u) => s.serialize_u64(*u),
            Value::Nint(n) => {
                if *n > i64::MAX as u64 {
                    return Err(S::Error::custom("negative integer below i64::MIN"));
                }
                s.serialize_i64(-1 - *n as i64)
            }
            Value::Bytes(b) => s.serialize_bytes(b),
            Value::Text(t) => match std::str::from_utf8(t) {
                Ok(x) => s.serialize_str(x),
                Err(_) => Err(S::Error::custom("ill-formed text")),
            },
            Value::Array(a) => {
                let mut q = s.serialize_seq(Some(a.len()))?;
                for x in a {
                    q.serialize_element(x)?;
                }
                q.end()
            }
            Value::Map(m) => {
                let mut q = s.serialize_map(Some(m.len()))?;
                for (k, v) in m {
                    q.serialize_entry(k, v)?;
                }
                q.end()
            }
            Value::Bool(b) => s.serialize_bool(*b),
            Value::Null => s.serialize_none(),
            _ => Err(S::Error::custom("no serde counterpart")),
        }
    }
}
